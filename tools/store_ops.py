"""In-process tie of Store.v with the real back ends (shared by tools/c07.py and tools/c08.py):
random op sequences run by harness/go/store (real FileSystemCache, RemoteWrapper, S3Cache over a fake
client, caching.Cas, caching.TargetResultCache) and by the extracted model, compared op by op."""
import hashlib, json
import vlib

CONTENTS = [b"", b"a", b"bb", b"hello", b"tree:a,bb"]
# larger than one io.Copy chunk (32 KiB): a writer that commits whatever prefix it has received when the OTHER writer of a
# tee'd Set fails shows as a truncated blob under the full content digest; used in about one case in eight
BIG = bytes((i * 7 + (i >> 8)) & 0xFF for i in range(40000))
RKEYS = ["r1", "r2", "r3"]
BKEYS = ["k1", "k2"]


def dg(c):
    return hashlib.sha256(c).hexdigest()


def gen_case(r, local_only):
    global CONTENTS
    small = CONTENTS
    if not local_only and r.chance(1, 8):
        CONTENTS = small + [BIG, BIG]
    try:
        return gen_case_(r, local_only)
    finally:
        CONTENTS = small


def gen_local_fault_case(r):
    """A LOCAL storage fault made to happen while a Set is tee'd through the wrapper, under random remote faults: early (the
    path's directory is a regular file) or late (the rename lands on a non-empty directory), then the entry is read back on
    both machines, written again without the fault and read again."""
    nf = r.below(4)
    faults = [r.choice(["n", "n", "f", "e", "4"]) for _ in range(nf)]
    c = r.choice(CONTENTS + [b"", BIG])
    kind = r.choice(["cas", "target", "taint", "late"])
    if kind == "cas":
        d = dg(c)
        wr, rd = "c:A:w:write:%s:%s" % (d, vlib.hx(c)), ["c:B:w:load:%s" % d, "c:A:w:load:%s" % d, "c:B:w:ex:%s" % d]
        ops = ["lf=e", "lbreak:A:cas", wr, "lfix:A:cas"]
    elif kind == "target":
        refs = ".".join(dg(x) for x in r.sample(CONTENTS, r.below(3)))
        wr, rd = "r:A:w:write:r1:%s" % refs, ["r:B:w:load:r1", "r:A:w:load:r1", "r:B:w:has:r1"]
        ops = ["lf=e", "lbreak:A:target", wr, "lfix:A:target"]
    elif kind == "taint":
        wr, rd = "b:A:w:set:taint:k1:%s" % vlib.hx(c), ["b:B:w:get:taint:k1", "b:A:w:get:taint:k1", "b:B:w:ex:taint:k1"]
        ops = ["lf=e", "lbreak:A:taint", wr, "lfix:A:taint"]
    else:
        wr, rd = "b:A:w:set:taint:k1:%s" % vlib.hx(c), ["b:B:w:get:taint:k1", "b:B:l:get:taint:k1", "b:B:w:ex:taint:k1"]
        ops = ["lf=o,l", "b:A:l:set:taint:k1/x:%s" % vlib.hx(r.choice(CONTENTS)), wr]
    for _ in range(1 + r.below(3)):
        ops.append(r.choice(rd))
    if kind != "late":
        if r.chance(1, 2):
            ops.append("reset:A")
        ops.append(wr)
        for _ in range(1 + r.below(2)):
            ops.append(r.choice(rd))
    return "case\t%s\t%s" % (",".join(faults) if faults else "-", "\t".join(ops))


def gen_case_(r, local_only):
    if not local_only and r.chance(1, 10):
        return gen_local_fault_case(r)
    ops = []
    nf = 0 if local_only else r.below(7)
    faults = [r.choice(["n", "n", "n", "f", "e", "4", "m"]) for _ in range(nf)]

    def mm():
        m = r.choice(["A", "A", "B"])
        md = "l" if local_only or r.chance(1, 4) else "w"
        return m, md
    n = 4 + r.below(11)
    while len(ops) < n:
        k = r.below(100)
        m, md = mm()
        if k < 14:      # publish pattern: blobs, then the result that references them
            cs = r.sample(CONTENTS, 1 + r.below(2))
            if r.chance(1, 3) and md == "w":     # ... after an earlier local-only write of the same blobs
                for c in cs:
                    ops.append("c:%s:l:write:%s:%s" % (m, dg(c), vlib.hx(c)))
                ops.append("reset:%s" % m)
            for c in cs:
                ops.append("c:%s:%s:write:%s:%s" % (m, md, dg(c), vlib.hx(c)))
            ops.append("r:%s:%s:write:%s:%s" % (m, md, r.choice(RKEYS), ".".join(dg(c) for c in cs)))
        elif k < 26:
            c = r.choice(CONTENTS)
            ops.append("c:%s:%s:write:%s:%s" % (m, md, dg(c), vlib.hx(c)))
        elif k < 36:
            ops.append("c:%s:%s:load:%s" % (m, md, dg(r.choice(CONTENTS))))
        elif k < 42:
            ops.append("c:%s:%s:ex:%s" % (m, md, dg(r.choice(CONTENTS))))
        elif k < 50:
            ops.append("r:%s:%s:load:%s" % (m, md, r.choice(RKEYS)))
        elif k < 55:
            ops.append("r:%s:%s:has:%s" % (m, md, r.choice(RKEYS)))
        elif k < 63:
            ops.append("r:%s:%s:write:%s:%s" % (m, md, r.choice(RKEYS), ".".join(dg(c) for c in r.sample(CONTENTS, r.below(3)))))
        elif k < 72:
            p = r.choice(["cas", "taint"])
            ops.append("b:%s:%s:set:%s:%s:%s" % (m, md, p, r.choice(BKEYS), vlib.hx(r.choice(CONTENTS))))
        elif k < 80:
            ops.append("b:%s:%s:get:%s:%s" % (m, md, r.choice(["cas", "taint", "target"]), r.choice(BKEYS + RKEYS)))
        elif k < 86:
            ops.append("b:%s:%s:ex:%s:%s" % (m, md, r.choice(["cas", "taint"]), r.choice(BKEYS)))
        elif k < 93:
            p = r.choice(["cas", "taint", "target"])
            ops.append("b:%s:%s:del:%s:%s" % (m, md, p, r.choice(BKEYS + RKEYS) if p != "cas" else r.choice(BKEYS + [dg(c) for c in CONTENTS])))
        else:
            ops.append("reset:%s" % m)
    return "case\t%s\t%s" % (",".join(faults) if faults else "-", "\t".join(ops))


def parse_obs(field):
    """class|A:..|B:..|R:..  ->  (class, {store: {path/key: val}})"""
    parts = field.split("|")
    cls = parts[0]
    stores = {}
    for p in parts[1:]:
        name, _, items = p.partition(":")
        stores[name] = dict(i.split("=", 1) for i in items.split(",") if i)
    return cls, stores


def oracles(line, hfields, findings, pid):
    """Oracles of C07/C08 evaluated on what the implementation did.  Returns (violations, known)."""
    ops = [o for o in line.split("\t")[2:] if not o.startswith("lf=")]   # lf= is the model's fault list, not an op
    viol, known = [], []
    prev = {"A": {}, "B": {}, "R": {}}
    written = {"A": {}, "B": {}}     # digests whose Cas.Write (wrapper) returned ok in the current process -> local-only before?
    stale = {"A": set(), "B": set()}   # digests the current process remembers as stored that were deleted from the remote since
    for i, (op, hf) in enumerate(zip(ops, hfields)):
        cls, st = parse_obs(hf)
        f = op.split(":")
        if f[0] == "reset":
            written[f[1]] = {}
            stale[f[1]] = set()
        elif f[0] == "b" and f[3] == "del" and f[2] == "w" and f[4] == "cas":
            # premise of C08_no_dangling (stored_in_remote), per digest: what a process remembers as stored is still in the
            # remote; after a delete through the wrapper a Cas.Write of that digest by a process that remembers it says
            # nothing (it is skipped) until the process is restarted
            for mm in written:
                if f[5] in written[mm]:
                    del written[mm][f[5]]
                    stale[mm].add(f[5])
        elif f[0] == "c" and f[3] == "write" and cls == "ok":
            d = f[4]
            if f[2] == "w" and d not in stale[f[1]]:
                # class of finding C08-F1 (repaired) for this blob: local-only before the write?
                written[f[1]][d] = ("cas/" + d in prev[f[1]]) and ("cas/" + d not in prev["R"])
        elif f[0] == "c" and f[3] == "load" and cls.startswith("ok="):
            h = cls[3:]
            data = b"" if h == "-" else bytes.fromhex(h)
            if dg(data) != f[4]:
                viol.append(("op %d: Cas.Load(%s) returned bytes that hash to %s" % (i, f[4][:12], dg(data)[:12]), i))
        elif f[0] == "b" and f[3] == "get" and cls.startswith("ok=") and f[2] == "w":
            k = f[4] + "/" + f[5]
            v = cls[3:]
            if prev[f[1]].get(k, prev["R"].get(k)) != v:
                viol.append(("op %d: wrapper Get(%s) returned %s, stored was %s" % (i, k, v[:20], str(prev[f[1]].get(k, prev["R"].get(k)))[:20]), i))
        elif f[0] == "r" and f[3] == "write" and cls == "ok" and f[2] == "w" and pid == "C08":
            refs = f[5].split(".") if len(f) > 5 and f[5] else []
            if all(d in written[f[1]] for d in refs):
                missing = [d for d in refs if "cas/" + d not in st["R"]]
                if "target/" + f[4] not in st["R"]:
                    viol.append(("op %d: result %s written through the wrapper is not in the remote" % (i, f[4]), i))
                for d in missing:
                    if written[f[1]][d] and "local-only-blob-dangling" in findings:
                        known.append((findings["local-only-blob-dangling"]["id"],
                                      "class=local-only-blob-dangling in-process: op %d uploads result %s whose blob %s.. was skipped by "
                                      "Cas.Write (in the local cache, not in the remote, before the write); ops: %s" % (i, f[4], d[:12], " ".join(ops[:i + 1])[:400])))
                    else:
                        viol.append(("op %d: after a successful result write the remote lacks blob %s.. although Cas.Write of it "
                                     "returned ok in this process and nothing deleted it since (%s)" % (
                                         i, d[:12], "the blob was in the local cache but not in the remote before that write: the upload "
                                         "was skipped" if written[f[1]][d] else "the blob was not local-only before that write"), i))
        # C07/C08, model-free: every blob visible under a content digest (in either local cache or in the remote) has exactly
        # that content -- also after a faulted Set (a writer that saw a clean EOF on a truncated stream would commit a prefix)
        for store, items in st.items():
            for k, v in items.items():
                if k.startswith("cas/") and len(k) == 4 + 64 and all(ch in "0123456789abcdef" for ch in k[4:]):
                    try:
                        data = b"" if v == "-" else bytes.fromhex(v)
                    except ValueError:
                        continue
                    if dg(data) != k[4:] and prev.get(store, {}).get(k) != v:
                        viol.append(("op %d (%s): store %s exposes cas/%s.. holding %d bytes that hash to %s.." % (
                            i, op[:60], store, k[4:16], len(data), dg(data)[:12]), i))
        prev = st
    return viol, known


def run_cases(lines, harness, drv):
    from concurrent.futures import ThreadPoolExecutor
    chunks = [lines[i:i + 40] for i in range(0, len(lines), 40)]

    def one(ch):
        import subprocess
        p = subprocess.run([harness, "ops"], input="\n".join(ch) + "\n", stdout=subprocess.PIPE, stderr=subprocess.PIPE, text=True, timeout=600)
        o = p.stdout.split("\n")
        if o and o[-1] == "":
            o.pop()
        if p.returncode != 0 or len(o) != len(ch):
            raise RuntimeError("store harness failed rc=%s %s" % (p.returncode, p.stderr[-400:]))
        return o
    with ThreadPoolExecutor(max_workers=12) as ex:
        hout = [l for o in ex.map(one, chunks) for l in o]
    rc2, mout, merr = vlib.run_lines(drv, lines)
    if rc2 != 0 or len(mout) != len(lines):
        raise RuntimeError("store model driver failed rc=%s %s" % (rc2, merr[-400:]))
    return hout, mout


def run_inprocess(out, pid, n, harness, findings, local_only=False):
    r = vlib.Rng(vlib.seed() * 31337 + (7 if local_only else 8))
    drv = vlib.build_driver("store")
    lines = [gen_case(r, local_only) for _ in range(n)]
    if not local_only:
        # fixed cases run first: a blob larger than one copy chunk written through the wrapper while exactly one of the two
        # writers fails (remote Put fails early / after reading the body, at each position of the fault list), then loaded
        # back on the same machine and on machine B
        d = dg(BIG)
        for faults in ("e", "n,e", "n,n,e", "f", "n,f", "n,n,f", "4", "n,4"):
            lines.insert(0, "case\t%s\tc:A:w:write:%s:%s\tc:A:w:load:%s\tc:A:l:load:%s\tc:B:w:load:%s" % (faults, d, vlib.hx(BIG), d, d, d))
        # ... and read back on machine B through the wrapper while the remote body fails mid-stream (then again, then locally)
        # (the write is one remote call, a PUT: the blob is not in the local cache, so nobody asks the remote first)
        for faults in ("n,m", "n,m,m", "n,m,n", "n,n,m", "n,n,m,m", "n,n,n,m"):
            lines.insert(0, "case\t%s\tc:A:w:write:%s:%s\tc:B:w:load:%s\tc:B:w:load:%s\tc:B:l:load:%s" % (faults, d, vlib.hx(BIG), d, d, d))
        # the situations of finding C08-F1 (repaired), always exercised: a blob that is in A's local cache only -- written without
        # the remote by an earlier process / asked for with Cas.Exists (local-OR-remote, remembered in the exists-memo) before
        # the write / left by a tee'd Set whose remote Put failed -- is published through the wrapper, read by machine B;
        # and the premise of C08_no_dangling: the blob is deleted from the remote while the writing process remembers it
        small = b"hello"
        ds = dg(small)
        pub = "c:A:w:write:%s:%s\tr:A:w:write:r1:%s\tr:B:w:load:r1\tc:B:w:load:%s" % (ds, vlib.hx(small), ds, ds)
        lines.insert(0, "case\t-\tc:A:l:write:%s:%s\treset:A\t%s" % (ds, vlib.hx(small), pub))
        lines.insert(0, "case\t-\tc:A:l:write:%s:%s\treset:A\tc:A:w:ex:%s\t%s" % (ds, vlib.hx(small), ds, pub))
        # ... or READ through the wrapper before the write (a cached target restored from the local cache, then another target
        # producing the same bytes): a successful read proves the blob is in the LOCAL store only
        lines.insert(0, "case\t-\tc:A:l:write:%s:%s\treset:A\tc:A:w:load:%s\t%s" % (ds, vlib.hx(small), ds, pub))
        lines.insert(0, "case\t-\tc:A:l:write:%s:%s\treset:A\tc:A:w:load:%s\tc:A:w:ex:%s\tc:A:w:load:%s\t%s" % (ds, vlib.hx(small), ds, ds, ds, pub))
        lines.insert(0, "case\tf\tc:A:w:write:%s:%s\treset:A\t%s" % (ds, vlib.hx(small), pub))
        lines.insert(0, "case\te\tc:A:w:write:%s:%s\t%s" % (ds, vlib.hx(small), pub))
        lines.insert(0, "case\t-\tc:A:w:write:%s:%s\tb:B:w:del:cas:%s\t%s" % (ds, vlib.hx(small), ds, pub))
        # LOCAL storage faults (the model's lfault list, made to happen in the real FileSystemCache): before anything is read
        # (the path's directory is a regular file: MkdirAll fails) and after everything was read (the rename lands on a
        # non-empty directory: a key below the one being set exists).  A tee'd Set must not publish a prefix in the remote.
        empty = b""
        for c in (BIG, small, empty):
            d2 = dg(c)
            lines.insert(0, "case\t-\tlf=e\tlbreak:A:cas\tc:A:w:write:%s:%s\tlfix:A:cas\tc:B:w:load:%s\tc:A:w:load:%s" % (d2, vlib.hx(c), d2, d2))
        lines.insert(0, "case\t-\tlf=e\tlbreak:A:target\tr:A:w:write:r1:%s\tlfix:A:target\tr:B:w:load:r1\tr:A:w:load:r1" % ds)
        lines.insert(0, "case\t-\tlf=e\tlbreak:A:taint\tb:A:w:set:taint:k1:%s\tlfix:A:taint\tb:B:w:get:taint:k1\tb:B:w:ex:taint:k1" % vlib.hx(BIG))
        for c in (BIG, small):
            lines.insert(0, "case\t-\tlf=o,l\tb:A:l:set:taint:k1/x:%s\tb:A:w:set:taint:k1:%s\tb:B:w:get:taint:k1\tb:B:l:get:taint:k1" % (vlib.hx(small), vlib.hx(c)))
    hout, mout = run_cases(lines, harness, drv)
    stats = {"sequences": n, "ops": 0, "distinct": 0, "mismatching_sequences": 0, "oracle_failures": 0, "known": 0,
             "remote_calls": 0, "faulted_calls": 0, "samples": []}
    distinct = set()
    first_mismatch = None
    for line, h, m in zip(lines, hout, mout):
        hf = h.split("\t")
        calls = hf[-1][6:] if hf and hf[-1].startswith("calls=") else ""
        hf = hf[:-1]
        mf = m.split("\t")
        stats["ops"] += len(hf)
        ncalls = len([c for c in calls.split(";") if c])
        stats["remote_calls"] += ncalls
        stats["faulted_calls"] += len([c for c in calls.split(";") if c and c.split(" ")[-1] in ("f", "e", "4", "m")])
        if local_only or ncalls:
            distinct.add(line)
        viol, known = oracles(line, hf, findings, pid)
        for what, i in viol:
            stats["oracle_failures"] += 1
            out.violation(what, {"ops": line, "impl": hf[i], "model": mf[i] if i < len(mf) else None})
        for fid, text in known:
            stats["known"] += 1
            out.known(fid, text)
        if hf != mf:
            stats["mismatching_sequences"] += 1
            if first_mismatch is None:
                j = next((i for i in range(min(len(hf), len(mf))) if hf[i] != mf[i]), min(len(hf), len(mf)))
                first_mismatch = (line, j, hf[j] if j < len(hf) else None, mf[j] if j < len(mf) else None)
        if len(stats["samples"]) < 2 and len(hf) >= 6 and ncalls:
            stats["samples"].append({"case": line, "impl_last": hf[-1]})
    if first_mismatch and not out.violations:
        line, j, hv, mv = first_mismatch
        out.violation("correspondence Store.v ~ internal/caching broke on %d of %d op sequences (first: op %d); no oracle of %s fails"
                      % (stats["mismatching_sequences"], n, j, pid),
                      {"correspondence": "Store.do_op vs backends.RemoteWrapper/FileSystemCache/S3Cache + caching.Cas/TargetResultCache",
                       "ops": line, "op_index": j, "impl": hv, "model": mv}, no_input=True)
    stats["distinct"] = len(distinct)
    return stats


def replay_case(out, pid, rp, harness, findings):
    drv = vlib.build_driver("store")
    hout, mout = run_cases([rp["ops"]], harness, drv)
    hf, mf = hout[0].split("\t")[:-1], mout[0].split("\t")
    for i, (a, b) in enumerate(zip(hf, mf)):
        print(i, "impl ", a)
        if a != b:
            print(i, "model", b)
    viol, known = oracles(rp["ops"], hf, findings, pid)
    for what, i in viol:
        out.violation(what, {"ops": rp["ops"], "impl": hf[i]})
    for fid, text in known:
        out.known(fid, text)
    if hf != mf and not viol:
        out.violation("correspondence Store.v ~ internal/caching differs on the replayed sequence", dict(rp), no_input=True)


def compare_prefix_states(out, single_states):
    """Single-target, single-file-output workspaces (num_workers=1): the visible key set left by a kill at any
    point must be one of the states the model reaches on a prefix of  blob write ; result write.
    Runs are grouped by workspace spec (the digests depend on the input's content): each group is judged against the
    complete state one of ITS runs reached."""
    groups = {}
    for job, res in single_states:
        groups.setdefault(json.dumps(job[1], sort_keys=True), []).append((job, res))
    if len(groups) > 1:
        tot = {"compared": 0, "model_states": 0, "observed_states": 0, "not_allowed": 0, "groups": len(groups), "monotone_order": []}
        for g in groups.values():
            r = compare_prefix_states(out, g)
            for k in ("compared", "observed_states", "not_allowed"):
                tot[k] += r.get(k, 0)
            tot["model_states"] = max(tot["model_states"], r.get("model_states", 0))
            tot["monotone_order"] = tot["monotone_order"] or r.get("monotone_order", [])
        return tot
    drv = vlib.build_driver("store")
    # the complete state names the digest and the result key
    full = None
    for job, res in single_states:
        t = res["state"]["targets"]
        if len(t) == 1 and len(res["state"]["cas"]) == 1:
            k = list(t)[0]
            full = (res["state"]["cas"][0], k)
    if not full:
        return {"compared": 0, "note": "no crash run reached the complete state"}
    d, k = full
    content = single_states[0][0][1]["inputs"]["in0.txt"].encode()
    rc, mout, err = vlib.run_lines(drv, ["steps\tB:%s:%s;R:%s:%s\t-\t-" % (d, vlib.hx(content), k, d)])
    allowed = []
    for st in mout[0].split("\t"):
        items = st.split("|")[0]
        keys = frozenset(i.split("=")[0] for i in items.split(",") if i)
        if keys not in allowed:
            allowed.append(keys)
    bad = 0
    seen = set()
    for job, res in single_states:
        keys = frozenset(["cas/" + c for c in res["state"]["cas"]] + ["target/" + t for t in res["state"]["targets"]])
        seen.add(keys)
        if keys not in allowed:
            bad += 1
            out.violation("single-target build killed at %s #%s leaves the visible key set %s, which no prefix of the model's step list "
                          "(blob, then result) produces" % (job[8], job[9], sorted(keys)),
                          {"spec": job[1], "syscall": job[8], "n": job[9], "mode": "kill", "gomaxprocs1": job[11], "allowed": [sorted(a) for a in allowed]})
    return {"compared": len(single_states), "model_states": len(allowed), "observed_states": len(seen), "not_allowed": bad,
            "monotone_order": [sorted(a) for a in allowed]}
