"""C08 -- the remote cache is a write-through / read-through mirror shared across machines.
(1) in-process: random op sequences (backend / CAS / target-result level, machines A and B, remote
    fault lists) on the real RemoteWrapper + FileSystemCache + S3Cache(fake client) vs Store.v;
(2) end to end: the real binary against tools/fake_s3.py on loopback, machine A and machine B = the
    same workspace path with different GROG_ROOTs."""
import json, os, shutil, hashlib
from concurrent.futures import ThreadPoolExecutor
import vlib, store_ws, fake_s3, store_ops

LEVEL = "proof"
TRUSTED = ("tools/fake_s3.py (in-memory path-style S3 look-alike) and the fake S3Client of harness/go/store stand in for S3; "
           "GCS is modelled like S3 and not exercised",)


# ------------------------------------------------------------------ e2e
def dump_store(objs, dest):
    """Lay the object store out like a cache directory so that the harness audit can read it."""
    shutil.rmtree(dest, ignore_errors=True)
    n = 0
    for k, v in objs.items():
        parts = k.split("/")
        for sec in ("cas", "target", "taint"):
            if sec in parts:
                i = parts.index(sec)
                p = os.path.join(dest, sec, *parts[i + 1:])
                os.makedirs(os.path.dirname(p), exist_ok=True)
                with open(p, "wb") as f:
                    f.write(v)
                n += 1
                break
    os.makedirs(os.path.join(dest, "cas"), exist_ok=True)
    os.makedirs(os.path.join(dest, "target"), exist_ok=True)
    return n


def local_cas(root, ws):
    d = os.path.join(store_ws.cache_dir(root, ws), "cas")
    return set(os.listdir(d)) if os.path.isdir(d) else set()


def local_targets(root, ws):
    d = os.path.join(store_ws.cache_dir(root, ws), "target")
    return set(f for f in os.listdir(d) if not f.startswith("tmp-")) if os.path.isdir(d) else set()


def remote_targets(objs):
    return set(k.split("/target/")[1] for k in objs if "/target/" in k)


def remote_cas(objs):
    return set(k.split("/cas/")[1] for k in objs if "/cas/" in k)


def e2e_history(idx, kind, spec, seed, grog, harness, base, findings):
    """Returns a dict: violations [(what, replay)], known [(id, text)], stats."""
    r = vlib.Rng(seed)
    res = {"violations": [], "known": [], "kind": kind, "stats": {}}
    hb = os.path.join(base, "h%d" % idx)
    ws = os.path.join(hb, "ws")
    rootA, rootB = os.path.join(hb, "rootA"), os.path.join(hb, "rootB")
    replay = {"history": kind, "spec": spec, "seed": seed, "index": idx}
    ref = store_ws.reference_outputs(grog, spec, hb)
    srv = fake_s3.FakeS3()
    try:
        env = srv.env()

        def bad(what, **kw):
            rp = dict(replay); rp.update(kw)
            res["violations"].append((what, rp))

        def check_store(label, a_local_before, remote_before):
            """no-dangling oracle on the object store; class evaluated on the failing history."""
            objs, _ = srv.snapshot()
            dump = os.path.join(hb, "dump")
            dump_store(objs, dump)
            au = store_ws.audit(harness, dump)
            for pr in au["problems"]:
                cls = None
                if "which is not in cas" in pr:
                    d = pr.split(" which is not in cas")[0].split()[-1]
                    # class of finding C08-F1 (repaired), evaluated on this history: the blob was in the
                    # writer's local cache but not in the remote before the build that uploaded the result
                    if d in a_local_before and d not in remote_before:
                        cls = "local-only-blob-dangling"
                if cls and cls in findings:
                    res["known"].append((findings[cls]["id"], "class=%s history=%s: after a successful build on machine A the remote "
                                         "store holds a result whose blob is missing (%s); the blob was in A's local cache but not "
                                         "in the remote before that build" % (cls, kind, pr[:160])))
                else:
                    bad("remote store inconsistent after %s: %s" % (label, pr[:200]), problem=pr)
            return au

        # ---------------- machine A
        store_ws.write_ws(spec, ws, remote=(kind != "local-then-remote"))
        a_local_before, remote_before = set(), set()
        if kind == "local-then-remote":
            rc, _, out = store_ws.grog(grog, ws, rootA, env_extra=env)
            if rc != 0:
                bad("local-only build failed rc=%s" % rc, out=out[-300:]); return res
            store_ws.write_toml(spec, ws, remote=True)
            rc, _, out = store_ws.grog(grog, ws, rootA, args=["taint"] + ["//p:t%d" % t["i"] for t in spec["targets"]], env_extra=env)
            if rc != 0:
                bad("taint failed rc=%s" % rc, out=out[-300:]); return res
            a_local_before = local_cas(rootA, ws)
            remote_before = remote_cas(srv.snapshot()[0])
            store_ws.clear_trace(ws)
            rc, _, out = store_ws.grog(grog, ws, rootA, env_extra=env)
        elif kind == "remote-down-wide":
            # the remote is down (every PUT fails) while a directory output with 100 files is written: a reported failure or a
            # degraded success, never a hang; after the outage a tainted rebuild publishes everything
            srv.set_faults([("PUT", 1, 500, True)])
            rc1, _, out1 = store_ws.grog(grog, ws, rootA, env_extra=env)
            res["stats"]["first_build_rc"] = rc1
            if rc1 == "timeout":
                bad("build hangs while the remote store fails every PUT (directory output with %s files)" % max(t.get("wide", 0) for t in spec["targets"]),
                    out=out1[-300:]); return res
            srv.set_faults([])
            rc, _, out = store_ws.grog(grog, ws, rootA, args=["taint"] + ["//p:t%d" % t["i"] for t in spec["targets"]], env_extra=env)
            a_local_before = local_cas(rootA, ws)
            remote_before = remote_cas(srv.snapshot()[0])
            store_ws.clear_trace(ws)
            rc, _, out = store_ws.grog(grog, ws, rootA, env_extra=env)
        elif kind == "put-fault-then-retry":
            nput = 1 + r.below(4)
            srv.set_faults([("PUT", nput, 500)])
            rc1, _, out1 = store_ws.grog(grog, ws, rootA, env_extra=env)
            res["stats"]["first_build_rc"] = rc1
            if rc1 == "timeout":
                bad("build with a failing remote PUT hangs", out=out1[-300:]); return res
            if rc1 == 0 and any(c == 500 for (_, _, c) in srv.snapshot()[1]):
                # the failure was swallowed: then everything the build wrote must still be retrievable
                missing = local_targets(rootA, ws) - remote_targets(srv.snapshot()[0])
                if missing:
                    bad("a build that exits 0 although a remote PUT failed leaves results %s out of the remote" % sorted(missing), nput=nput)
            srv.set_faults([])
            a_local_before = local_cas(rootA, ws)
            remote_before = remote_cas(srv.snapshot()[0])
            rc, _, out = store_ws.grog(grog, ws, rootA, env_extra=env)
        else:
            rc, _, out = store_ws.grog(grog, ws, rootA, env_extra=env)
        if rc == "timeout":
            bad("machine A build hangs", out=out[-300:]); return res
        if rc != 0:
            bad("machine A build failed without faults rc=%s" % rc, out=out[-300:]); return res
        outA = store_ws.outputs_of(spec, ws)
        if outA != ref:
            bad("machine A outputs differ from the from-scratch reference", diff=sorted(k for k in set(outA) | set(ref) if outA.get(k) != ref.get(k)))
        au = check_store("machine A's successful build", a_local_before, remote_before)
        dangling = any("which is not in cas" in p for p in au["problems"])
        objsA = srv.snapshot()[0]
        not_mirrored = (local_targets(rootA, ws) if kind != "put-fault-then-retry" else set()) - remote_targets(objsA)
        if not_mirrored:
            bad("machine A's successful build wrote results %s that are not in the remote afterwards" % sorted(not_mirrored))
        remote_complete = not dangling and local_targets(rootA, ws) <= remote_targets(objsA) and local_cas(rootA, ws) <= remote_cas(objsA)
        res["stats"]["remote_complete"] = remote_complete
        # blobs that were in A's local cache only before the build under test (C08-F1's situation), and how many of them the
        # build uploaded; what A's local cache holds that the remote still lacks (results of targets that were local cache hits)
        lonly = a_local_before - remote_before
        res["stats"]["local_only_before"] = len(lonly)
        res["stats"]["local_only_uploaded"] = len(lonly & remote_cas(objsA))
        res["stats"]["unmirrored_results"] = len(local_targets(rootA, ws) - remote_targets(objsA))
        res["stats"]["unmirrored_blobs"] = len(local_cas(rootA, ws) - remote_cas(objsA))
        res["stats"]["results_in_store"] = len(au["targets"]); res["stats"]["blobs_in_store"] = len(au["cas"])
        res["stats"]["dangling"] = dangling

        # ---------------- machine B: same workspace path, other GROG_ROOT, outputs wiped
        store_ws.wipe_outputs(spec, ws)
        srv.clear_log()
        faults = []
        if kind == "b-read-faults":
            for _ in range(1 + r.below(2)):
                faults.append((r.choice(["GET", "GET", "HEAD"]), 1 + r.below(6), r.choice([500, 404])))
            srv.set_faults(faults)
        rcB, secs, outB = store_ws.grog(grog, ws, rootB, env_extra=env)
        replayB = {"b_faults": faults}
        res["stats"]["b_rc"] = rcB
        if rcB == "timeout":
            bad("machine B hangs (faults %s, dangling=%s)" % (faults, dangling), out=outB[-300:], **replayB); return res
        trB = store_ws.trace(ws)
        res["stats"]["b_executed"] = len(trB)
        outBf = store_ws.outputs_of(spec, ws)
        if rcB == 0 and outBf != ref:
            bad("machine B finished successfully with outputs that differ from machine A's / the reference",
                diff=sorted(k for k in set(outBf) | set(ref) if outBf.get(k) != ref.get(k)), **replayB)
        if rcB != 0:
            # a reported failure is an allowed degradation only under faults; wrong bytes never
            wrong = [k for k, v in outBf.items() if v is not None and ref.get(k) is not None and v != ref[k] and False]
            if not faults and remote_complete:
                bad("machine B build fails without faults rc=%s" % rcB, out=outB[-400:], **replayB)
        if not faults and remote_complete:
            if trB:
                bad("machine B executed %s although machine A's results and blobs are all in the shared remote" % trB, out=outB[-300:], **replayB)
        # B's local cache contains what it read
        objs, log = srv.snapshot()
        cdB = store_ws.cache_dir(rootB, ws)
        for (m, k, code) in log:
            if m == "GET" and code == 200:
                for sec in ("cas", "target"):
                    if "/" + sec + "/" in k:
                        p = os.path.join(cdB, sec, k.split("/" + sec + "/")[1])
                        if not os.path.isfile(p) or open(p, "rb").read() != objs.get(k):
                            bad("machine B read %s from the remote but its local cache does not hold the same bytes afterwards" % k, **replayB)
        # B's local cache is a partial mirror: audit it together with the remote (every blob must hash to its
        # name; every reference must be satisfiable from local-or-remote, which is what the wrapper reads)
        union = os.path.join(hb, "unionB")
        dump_store(objs, union)
        for sec in ("cas", "target"):
            src = os.path.join(cdB, sec)
            if os.path.isdir(src):
                for fn in os.listdir(src):
                    shutil.copy(os.path.join(src, fn), os.path.join(union, sec, fn))
        auB = store_ws.audit(harness, union)
        for pr in auB["problems"]:
            if dangling and "which is not in cas" in pr and pr in au["problems"]:
                continue    # the remote's own dangling reference, already classified above
            bad("machine B local cache + remote inconsistent: %s" % pr[:200], **replayB)
        res["stats"]["b_gets"] = sum(1 for (m, k, c) in log if m == "GET" and c == 200)
        return res
    finally:
        srv.close()
        shutil.rmtree(hb, ignore_errors=True)


def run_e2e(out, tier, grog, harness, findings):
    r = vlib.Rng(vlib.seed() * 7919 + 8)
    n = 24 if tier == "quick" else 240
    kinds = ["basic", "local-then-remote", "put-fault-then-retry", "b-read-faults", "remote-down-wide"]
    jobs = []
    for i in range(n):
        kind = kinds[i % 4]
        jobs.append((i, kind, store_ws.gen_spec(r), r.next()))
    for k, wide in enumerate([40, 100] if tier == "quick" else [33, 40, 64, 100, 200, 300]):
        spec = store_ws.gen_spec(r)
        dirs = [t for t in spec["targets"] if t["kind"] in ("dir", "mixed")]
        if not dirs:
            spec["targets"][0]["kind"] = "dir"; dirs = [spec["targets"][0]]
        dirs[0]["wide"] = wide
        jobs.append((n + k, "remote-down-wide", spec, r.next()))
    base = os.path.join(vlib.scratch(), "c08e2e")
    os.makedirs(base, exist_ok=True)
    stats = {k: {"histories": 0, "dangling": 0, "remote_complete": 0, "b_executed_nothing": 0, "b_failed": 0, "b_gets": 0,
                 "local_only_before": 0, "local_only_uploaded": 0, "unmirrored_results": 0, "unmirrored_blobs": 0} for k in kinds}
    with ThreadPoolExecutor(max_workers=16) as ex:
        futs = [ex.submit(e2e_history, i, kind, spec, sd, grog, harness, base, findings) for (i, kind, spec, sd) in jobs]
        for f in futs:
            res = f.result()
            st = stats[res["kind"]]
            st["histories"] += 1
            st["dangling"] += 1 if res["stats"].get("dangling") else 0
            st["remote_complete"] += 1 if res["stats"].get("remote_complete") else 0
            st["b_executed_nothing"] += 1 if res["stats"].get("b_executed") == 0 else 0
            st["b_failed"] += 1 if res["stats"].get("b_rc") not in (0, None) else 0
            st["b_gets"] += res["stats"].get("b_gets", 0)
            for key in ("local_only_before", "local_only_uploaded", "unmirrored_results", "unmirrored_blobs"):
                st[key] += res["stats"].get(key, 0)
            for what, rp in res["violations"]:
                out.violation(what, rp)
            for fid, text in res["known"]:
                out.known(fid, text)
    return n, stats


# ------------------------------------------------------------------ run
def run(out, tier):
    findings = {f["class"]: f for f in vlib.known_findings("C08")}
    harness = None
    try:
        harness = vlib.build_harness("store")
    except vlib.HarnessUnavailable as e:
        out.notes.append("inprocess_tie: unavailable (%s)" % str(e)[-500:])
    nseq = 500 if tier == "quick" else 20000
    inproc = {"sequences": 0}
    if harness:
        inproc = store_ops.run_inprocess(out, "C08", nseq, harness, findings)
    grog = vlib.build_grog()
    nh, e2e = 0, {}
    if harness:
        nh, e2e = run_e2e(out, tier, grog, harness, findings)
    out.cov.update({
        "evaluations": inproc.get("ops", 0) + nh,
        "distinct_nontrivial": inproc.get("distinct", 0) + nh,
        "rule": "in-process: random op sequences (4-14 ops: backend get/set/exists/delete, CAS write/load/exists, result "
                "write/load/has, process restarts; machines A and B; local-only or through the wrapper; remote fault list over "
                "Get/Put/Head) compared op by op with Store.v (returned class, key sets and bytes of both local caches and the "
                "remote); non-trivial = distinct sequence that touches the remote; e2e: generated 2-4 target workspaces, "
                "histories basic | local-then-remote | put-fault-then-retry | b-read-faults against a loopback fake S3",
        "samples": inproc.get("samples", []),
        "traces_validated_against_impl": inproc.get("ops", 0),
        "inprocess": inproc, "e2e_histories": nh, "e2e": e2e,
        "gcs": "modelled like S3 (same wrapper, same key layout), not exercised: no fake GCS server",
        "inprocess_tie": bool(harness),
    })
    out.assumptions += ["the fake S3 client/server is faithful for the four calls grog uses (get, put with fully buffered body, head, delete)",
                        "AWS_MAX_ATTEMPTS=1 in e2e runs so that an injected 500 is not retried by the SDK",
                        "machine B = same absolute workspace path with another GROG_ROOT on the same host"]


def replay(out, path):
    rp = json.load(open(path))["replay"]
    findings = {f["class"]: f for f in vlib.known_findings("C08")}
    harness = vlib.build_harness("store")
    if "ops" in rp:
        store_ops.replay_case(out, "C08", rp, harness, findings)
        return
    grog = vlib.build_grog()
    base = os.path.join(vlib.scratch(), "c08replay")
    os.makedirs(base, exist_ok=True)
    res = e2e_history(rp.get("index", 0), rp["history"], rp["spec"], rp["seed"], grog, harness, base, findings)
    for what, r2 in res["violations"]:
        out.violation(what, r2)
    for fid, text in res["known"]:
        out.known(fid, text)
    print(json.dumps(res["stats"]))
