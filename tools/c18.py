"""C18 -- interrupts stop the build promptly and leave a recoverable state.
Tie (e2e, real binary): graphs with slow targets; SIGINT/SIGTERM at seeded delays across loading,
execution, output writing and shutdown; oracles: exit status, latency after the signal, no target
command starts after the signal (+ scheduling slack), the target shells are gone, no cache entry for
interrupted targets, the follow-up build acquires the lock and equals a from-scratch build.
The scheduler/lock side of the property is carried by the Coq theorems (Walker.v, Lock.v); timing and
process termination are OS/runtime behaviour covered by this correspondence only."""
import json, os, shutil, signal, subprocess, time
import vlib, buildlib as bl

EXIT_BOUND = 6.0      # seconds from signal to process exit (observed ~0.5-1.5 s: CommandContext + 1 s WaitDelay)
START_SLACK = 0.25    # a command whose shell was already being spawned when the signal arrived


def make_ws(ws, r, workers=None, fixed=False):
    """chain a <- b <- c plus independent d, e -- or ("wide") eight independent targets, so that with 1-2 workers the pool has a
    backlog of queued jobs when the signal arrives; every command logs S/E with a timestamp and its shell pid"""
    if not fixed and r.chance(1, 2):
        names = ["a", "b", "c", "d", "e"]
        deps = {"a": [], "b": ["a"], "c": ["b"], "d": [], "e": ["d"]}
    else:
        names = ["w%d" % i for i in range(8)]
        deps = {n: [] for n in names}
    sleeps = {n: r.choice(["0.3", "0.6", "1.0"]) for n in names}
    # in every second case ALL target shells ignore SIGTERM: "terminates the running target shells" must not depend on their cooperation
    all_ignore = r.chance(1, 2)
    if fixed:
        # the fixed cases (one in four): eight independent 3.5 s commands whose shells ignore SIGTERM and carry a timeout that never
        # strikes, interrupted while the first ones run: a shell that is not KILLED is still there a second after grog has gone
        sleeps = {n: "3.5" for n in names}
        all_ignore = True
    targets = []
    for n in names:
        cmd = "\n".join(([
            # half of the shells ignore SIGTERM: "terminates the running target shells" must not depend on their cooperation
            "trap '' TERM"] if all_ignore else []) + [
            'echo "S %s $(date +%%s.%%N) $$" >> "$VTRACE"' % n,
            "sleep %s" % sleeps[n],
            "{ echo %s; %s } > %s.out" % (n, " ".join("cat %s.out;" % d for d in deps[n]), n),
            'echo "E %s $(date +%%s.%%N) $$" >> "$VTRACE"' % n])
        t = {"name": n, "command": cmd, "dependencies": [":" + d for d in deps[n]], "outputs": [n + ".out"], "inputs": ["in.txt"]}
        if all_ignore or r.chance(1, 2):
            t["timeout"] = r.choice(["5m", "300s", "1h"])     # a timeout that never strikes: interrupt handling must not depend on it
        targets.append(t)
    os.makedirs(os.path.join(ws, "p"), exist_ok=True)
    json.dump({"targets": targets}, open(os.path.join(ws, "p", "BUILD.json"), "w"), indent=1)
    open(os.path.join(ws, "p", "in.txt"), "w").write("input")
    open(os.path.join(ws, "grog.toml"), "w").write("num_workers = %d\n" % workers if workers else "")
    return names


def read_trace(path):
    ev = []
    if os.path.exists(path):
        for l in open(path):
            f = l.split()
            if len(f) >= 4:
                ev.append((f[0], f[1], float(f[2]), int(f[3])))
    return ev


def count_results(root):
    n = 0
    for dp, dn, fn in os.walk(root):
        if os.path.basename(dp) == "target":
            n += len([f for f in fn if not f.startswith("tmp-")])
    return n


def outputs(ws, names):
    res = {}
    for n in names:
        p = os.path.join(ws, "p", n + ".out")
        res[n] = open(p).read() if os.path.isfile(p) else None
    return res


def one_case(args):
    grog, base, k, seed = args
    r = vlib.Rng(seed * 9176 + k)
    d = os.path.join(base, "c18-%d" % k)
    ws, root, trace = os.path.join(d, "ws"), os.path.join(d, "root"), os.path.join(d, "trace")
    os.makedirs(root, exist_ok=True)
    workers = vlib.Rng(seed * 31 + k).choice([1, 2, 2, 4])
    fixed = (k % 4 == 0)
    if fixed:
        workers = 2
    names = make_ws(ws, r, workers, fixed=fixed)
    sig = r.choice([signal.SIGINT, signal.SIGTERM])
    delay = [0.02, 0.1, 0.25, 0.45, 0.7, 1.0, 1.4, 1.9, 2.6][r.below(9)] + r.below(100) / 1000.0
    if fixed:
        sig = [signal.SIGINT, signal.SIGTERM][(k // 4) % 2]
        delay = 0.8
    env = bl.grog_env(root, trace)
    env["GROG_NUM_WORKERS"] = str(workers)
    t0 = time.time()
    p = subprocess.Popen([grog, "build", "//..."], cwd=ws, env=env, stdout=subprocess.PIPE, stderr=subprocess.PIPE, text=True)
    time.sleep(delay)
    tsig = time.time()
    finished_before = p.poll() is not None
    if not finished_before:
        p.send_signal(sig)
    try:
        so, se = p.communicate(timeout=EXIT_BOUND + 10)
        texit = time.time()
        rc = p.returncode
    except subprocess.TimeoutExpired:
        p.kill(); so, se = p.communicate(); rc = "hang"; texit = time.time()
    time.sleep(0.3)
    ev = read_trace(trace)
    res = {"k": k, "signal": sig.name, "delay": round(delay, 3), "workers": workers, "rc": rc, "finished_before_signal": finished_before,
           "latency": round(texit - tsig, 3), "problems": [], "events": [(e[0], e[1], round(e[2] - tsig, 3)) for e in ev]}
    if not finished_before:
        if rc == "hang":
            res["problems"].append("grog did not exit within %.0f s after %s" % (EXIT_BOUND + 10, sig.name))
        elif texit - tsig > EXIT_BOUND:
            res["problems"].append("grog took %.1f s to exit after %s" % (texit - tsig, sig.name))
        ended = {e[1] for e in ev if e[0] == "E"}
        if rc == 0 and len(ended) < len(names):
            res["problems"].append("exit status 0 although the build was interrupted with %d of %d targets finished" % (len(ended), len(names)))
        late = [e for e in ev if e[0] == "S" and e[2] > tsig + START_SLACK]
        if late:
            res["problems"].append("target %s started %.2f s after the signal" % (late[0][1], late[0][2] - tsig))
        def running(pid):
            # a process that was killed but is not reaped yet (state Z: its parent, grog, is gone and the reaper of this sandbox is
            # slow) or is being torn down (X) is TERMINATED; so is one that disappears within a second (SIGKILL delivered, exit pending)
            for _ in range(20):
                try:
                    st = open("/proc/%d/stat" % pid).read().rsplit(")", 1)[1].split()[0]
                except (OSError, IndexError):
                    return False
                if st in ("Z", "X"):
                    return False
                time.sleep(0.05)
            return True
        alive = [e[3] for e in ev if e[0] == "S" and e[1] not in ended and running(e[3])]
        if alive:
            res["problems"].append("target shell(s) %s still alive after grog exited" % alive)
        # a shell that outlived grog and finished its script: its E line is stamped after grog's exit (the trace is read AGAIN: a
        # shell that was given its second of grace above may have ended in the meantime)
        if rc != "hang":
            outlived = [(e[1], round(e[2] - texit, 2)) for e in read_trace(trace) if e[0] == "E" and e[2] > texit + 0.05]
            if outlived:
                res["problems"].append("target shell(s) kept running after grog exited and finished their commands %s s later: %s" % (
                    outlived[0][1], [n for n, _ in outlived]))
        nres = count_results(root)
        if nres > len(ended):
            res["problems"].append("%d cached results but only %d targets finished (an interrupted target was cached)" % (nres, len(ended)))
    # follow-up build: must acquire the lock left behind (dead PID), finish, and equal a from-scratch build
    t1 = time.time()
    try:
        q = subprocess.run([grog, "build", "//..."], cwd=ws, env=env, stdout=subprocess.PIPE, stderr=subprocess.PIPE, text=True, timeout=60)
        res["followup_rc"] = q.returncode
        res["followup_s"] = round(time.time() - t1, 2)
        if q.returncode != 0:
            res["problems"].append("follow-up build failed: %s" % q.stderr[-300:])
    except subprocess.TimeoutExpired:
        res["problems"].append("follow-up build blocked for 60 s (lock not recovered?)")
    got = outputs(ws, names)
    ws2, root2 = os.path.join(d, "ws2"), os.path.join(d, "root2")
    os.makedirs(root2, exist_ok=True)
    make_ws(ws2, vlib.Rng(seed * 9176 + k), workers, fixed=fixed)
    env2 = bl.grog_env(root2, os.path.join(d, "trace2"))
    subprocess.run([grog, "build", "//..."], cwd=ws2, env=env2, stdout=subprocess.PIPE, stderr=subprocess.PIPE, text=True, timeout=60)
    want = outputs(ws2, names)
    if got != want:
        res["problems"].append("outputs after the follow-up build differ from a from-scratch build: %s vs %s" % (got, want))
    shutil.rmtree(d, ignore_errors=True)
    return res


LEVEL = "proof"


def run(out, tier):
    n = 16 if tier == "quick" else 300
    grog = vlib.build_grog()
    base = vlib.scratch()
    res = bl.parallel(one_case, [(grog, base, k, vlib.seed()) for k in range(n)], workers=16)
    phases = {"before-any-start": 0, "during-execution": 0, "after-finish": 0}
    nontriv = set()
    for x in res:
        if x["finished_before_signal"]:
            phases["after-finish"] += 1
        elif not x["events"]:
            phases["before-any-start"] += 1
        else:
            phases["during-execution"] += 1
            nontriv.add((x["signal"], x["delay"], x["workers"]))
        for pr in x["problems"][:1]:
            out.violation("%s (signal %s after %.2f s, %d workers)" % (pr, x["signal"], x["delay"], x["workers"]), x)
    out.cov.update({
        "evaluations": len(res), "distinct_nontrivial": len(nontriv),
        "rule": "5-target workspace (chain of 3 + chain of 2) or 8 independent targets (a backlog of queued jobs with 1-2 workers), commands sleep "
                "0.3-1.0 s, grog build //... with num_workers 1/2/4 (grog.toml), SIGINT or SIGTERM at a "
                "seeded delay between 0.02 and 2.7 s; non-trivial = the signal arrived while at least one target command had started and the "
                "build had not finished",
        "samples": [{k: v for k, v in x.items() if k != "problems"} for x in res[:3]],
        "traces_validated_against_impl": len(res), "input_distribution": phases,
        "latency_max_s": max(x["latency"] for x in res), "exit_bound_s": EXIT_BOUND,
    })
    out.assumptions += ["'bounded time' is judged against %.0f s (observed maximum is recorded as latency_max_s)" % EXIT_BOUND,
                        "orphaned grandchildren of a killed shell (e.g. its sleep) are not judged unless they write to the trace",
                        "timing and process termination are not expressible in the model: covered by this e2e run only"]


def replay(out, path):
    print(json.dumps(json.load(open(path))["replay"], indent=1)[:4000])
