"""C19 -- graph algorithms scale polynomially, not with the number of paths.
Operation counts, never seconds: the harness runs the real SelectTargetsForBuild / GetAncestors /
GetDescendants on ladder(w,d), dense and chain families and reports the exact number of entries
into the recursive function (see harness/go/select/main.go for why the counts are exact).
Tie: the counts must EQUAL the model's Select.*_visited_calls (one entry per distinct node: the
traversals keep a visited set since the repair of C19-F1..F3); the model's cost (entries + edges
inspected) is then given by C19_*_cost_exact and bounded by C19_*_linear, both re-checked on the
model's own numbers.  The oracle is the polynomial bound 4*(V+E+1)^2 evaluated on the
implementation's own counts; counts that equal the historical path enumeration (Select.*_paths_c)
identify the findings C19-F1..F3.
CLI tie: the number of lines `grog deps -t` / `grog rdeps -t` print on ladders (= calls - 1)."""
import json, os, subprocess, time
import vlib
import selectlib as sl

ALGS = ["select", "ancestors", "descendants"]
CLASSES = {"select": "path-enumeration-select", "ancestors": "path-enumeration-ancestors",
           "descendants": "path-enumeration-descendants"}
WHERE = {"select": "selection.selectAllAncestorsForBuild (grog build/test/run)",
         "ancestors": "dag.GetAncestors (grog deps -t)",
         "descendants": "dag.GetDescendants (failure propagation in the walker under the completion mutex, grog rdeps -t, grog changes)"}


def bound(V, E):
    return 4 * (V + E + 1) ** 2


def paths_calls(g, n, rev=False):
    """entries of the path-enumerating recursion from n: 1 + sum over successors (DP, polynomial)"""
    nxt = g
    if rev:
        nxt = [[] for _ in g]
        for j, ds in enumerate(g):
            for d in ds:
                nxt[d].append(j)
    memo = {}
    order = range(len(g)) if not rev else range(len(g) - 1, -1, -1)
    for i in order:
        memo[i] = 1 + sum(memo[d] for d in nxt[i])
    return memo[n]


def reach_count(g, n, rev=False):
    nxt = g
    if rev:
        nxt = [[] for _ in g]
        for j, ds in enumerate(g):
            for d in ds:
                nxt[d].append(j)
    seen, todo = set(), [n]
    while todo:
        k = todo.pop()
        for d in nxt[k]:
            if d not in seen:
                seen.add(d); todo.append(d)
    return len(seen)


def families(tier, r):
    q = tier == "quick"
    fams = []
    fams.append(("ladder2", [("ladder(2,%d)" % d, sl.ladder(2, d)) for d in range(1, (15 if q else 19) + 1)]))
    fams.append(("ladder3", [("ladder(3,%d)" % d, sl.ladder(3, d)) for d in range(1, (10 if q else 12) + 1)]))
    fams.append(("dense", [("dense(%d)" % n, sl.dense(n)) for n in range(2, (18 if q else 21) + 1)]))
    fams.append(("dense3", [("dense_k(%d,3)" % n, sl.dense_k(n, 3)) for n in range(4, (20 if q else 28) + 1, 2)]))
    fams.append(("chain", [("chain(%d)" % n, sl.chain(n)) for n in ([2, 6, 12, 18, 24, 30, 32, 33, 36, 48] + ([] if q else [64, 128, 400]))]))
    # depths far beyond what a path enumeration could finish (2^61 .. 2^201 paths): linear traversals take milliseconds
    fams.append(("deep", [("ladder(2,%d)" % d, sl.ladder(2, d)) for d in ((60, 120) if q else (60, 120, 200))] +
                         [("ladder(3,40)", sl.ladder(3, 40)), ("dense(40)", sl.dense(40))]))
    rnd = []
    for k in range(40 if q else 400):
        n = 2 + r.below(12)
        g = [[j for j in range(i) if r.chance(1, 3)] for i in range(n)]
        rnd.append(("random#%d" % k, g))
    fams.append(("random", rnd))
    return fams


def run_family(h, lines, timeout):
    """one harness process per family, increasing size; returns the answered prefix and whether it timed out"""
    inp = "\n".join(lines) + "\n"
    t = time.time()
    try:
        p = subprocess.run([h], input=inp, stdout=subprocess.PIPE, stderr=subprocess.PIPE, timeout=timeout, text=True)
        outl = [l for l in p.stdout.split("\n") if l]
        return outl, False, time.time() - t
    except subprocess.TimeoutExpired as e:
        so = e.stdout or b""
        if isinstance(so, bytes):
            so = so.decode("utf-8", "replace")
        outl = [l for l in so.split("\n") if l.startswith("cost\t") or l.startswith("conflicts\t")]
        return outl, True, time.time() - t


def run(out, tier):
    r = vlib.Rng(vlib.seed())
    findings = {f["class"]: f for f in vlib.known_findings("C19")}
    fams = families(tier, r)
    drv = vlib.build_driver("select")

    # the theorem's families are the ones we run: Graph.ladder / Graph.chain vs the generators here
    fl = ["family\tladder\t2\t5", "family\tladder\t3\t4", "family\tladder\t1\t3", "family\tchain\t7", "family\tchain\t1"]
    _, fo, _ = vlib.run_lines(drv, fl)
    want = [sl.ladder(2, 5), sl.ladder(3, 4), sl.ladder(1, 3), sl.chain(7), sl.chain(1)]
    for l, o, wv in zip(fl, fo, want):
        if o != "graph\t" + sl.graphspec(wv):
            out.violation("Graph.%s differs from the generator used on the implementation: %s" % (l.replace("\t", " "), o),
                          {"correspondence": "graph families", "model": o, "python": sl.graphspec(wv)}, no_input=True)

    # model: instrumented twins (paths variants are exponential as well: only below a size cap)
    rows = []      # (family, name, g, top, bottom)
    for fam, gs in fams:
        for name, g in gs:
            rows.append((fam, name, g, len(g) - 1, 0))
    CAP = 300000
    mlines, mkind = [], []
    for fam, name, g, top, bottom in rows:
        big = max(paths_calls(g, top), paths_calls(g, bottom, rev=True)) > CAP
        mlines.append("%s\t%s\t%d\t%d" % ("costv" if big else "cost", sl.graphspec(g), top, bottom))
        mkind.append(big)
    rc, mo, err = vlib.run_lines(drv, mlines)
    if rc != 0 or len(mo) != len(mlines):
        raise RuntimeError("select model driver failed on cost lines: rc=%s %d/%d %s" % (rc, len(mo), len(mlines), err[-300:]))
    model = []
    dp_bad = []
    for (fam, name, g, top, bottom), big, o in zip(rows, mkind, mo):
        f = o.split("\t")
        V, E = len(g), sum(len(ds) for ds in g)
        dp = {"select": paths_calls(g, top), "ancestors": paths_calls(g, top), "descendants": paths_calls(g, bottom, rev=True)}
        if not big:
            mp = {"select": int(f[2]), "ancestors": int(f[3]), "descendants": int(f[4])}
            mv = {"select": int(f[6]), "ancestors": int(f[7]), "descendants": int(f[8])}
            rest = f[12:]
            if mp != dp or int(f[10]) != V or int(f[11]) != E:
                dp_bad.append(name)
        else:
            mp = dp     # above the cap the closed recurrence (validated against the model below it) stands in
            mv = {"select": int(f[2]), "ancestors": int(f[3]), "descendants": int(f[4])}
            rest = f[8:]
        # rest = calls c1 c2 c3 formula f1 f2 f3
        mc = {"select": int(rest[1]), "ancestors": int(rest[2]), "descendants": int(rest[3])}
        mf = {"select": int(rest[5]), "ancestors": int(rest[6]), "descendants": int(rest[7])}
        ref = {"select": 1 + reach_count(g, top), "ancestors": 1 + reach_count(g, top),
               "descendants": 1 + reach_count(g, bottom, rev=True)}
        # C19_*_calls and C19_*_cost_exact, checked on the model's own numbers against a plain BFS
        for a in ALGS:
            if mc[a] != ref[a]:
                out.violation("model: %s enters its recursive function %d times on %s, 1 + distinct reachable nodes = %d (contradicts C19_%s_calls)" % (
                    a, mc[a], name, ref[a], a), {"theorem": "C19_%s_calls" % a, "graph": sl.graphspec(g)}, no_input=True)
            if mv[a] != mf[a]:
                out.violation("model: cost of %s is %d on %s, entries + edges leaving entered nodes = %d (contradicts C19_%s_cost_exact)" % (
                    a, mv[a], name, mf[a], a), {"theorem": "C19_%s_cost_exact" % a, "graph": sl.graphspec(g)}, no_input=True)
        # the proved bound, checked on the model's own numbers
        for a in ALGS:
            if mv[a] > V + E + 1:
                out.violation("model: %s costs %d > V+E+1 = %d on %s (contradicts C19_*_linear)" % (a, mv[a], V + E + 1, name),
                              {"theorem": "C19_%s_linear" % a, "graph": sl.graphspec(g)}, no_input=True)
        model.append({"paths": mp, "visited": mv, "V": V, "E": E, "calls": mc})
    if dp_bad:
        out.violation("the closed recurrence calls(n) = 1 + sum calls(successors) disagrees with Select.paths_c on %s" % dp_bad[:3],
                      {"correspondence": "paths_c vs recurrence", "graphs": dp_bad[:5]}, no_input=True)

    # the traversals return exactly the de-duplicated path enumerations (C20_deps_is_dedup / C20_rdeps_is_dedup, re-checked)
    small = [(name, g, top, bottom) for fam, name, g, top, bottom in rows if paths_calls(g, top) <= 5000 and paths_calls(g, bottom, rev=True) <= 5000]
    _, so, _ = vlib.run_lines(drv, ["sets\t%s\t%d\t%d" % (sl.graphspec(g), top, bottom) for name, g, top, bottom in small])
    for (name, g, top, bottom), o in zip(small, so):
        f = o.split("\t") + ["", "", "", ""]
        if f[1] != f[2] or f[3] != f[4]:
            out.violation("model: traversal and de-duplicated path enumeration differ on %s: %s" % (name, o),
                          {"correspondence": "Select.ancestors_visited/descendants_visited vs ancestors_set/descendants_set", "graph": sl.graphspec(g)}, no_input=True)

    # implementation
    inproc = True
    impl = [None] * len(rows)
    timeouts = []
    wall = {}
    try:
        h = vlib.build_harness("select")
    except vlib.HarnessUnavailable as e:
        out.notes.append("inprocess_tie: unavailable (%s)" % str(e)[-500:])
        inproc = False
    if inproc:
        pos = 0
        for fam, gs in fams:
            idx = list(range(pos, pos + len(gs)))
            pos += len(gs)
            lines = ["cost\t%s\t%d\t%d" % (sl.graphspec(rows[i][2]), rows[i][3], rows[i][4]) for i in idx]
            res, timed_out, secs = run_family(h, lines, timeout=25 if tier == "quick" else 240)
            wall[fam] = round(secs, 2)
            for i, o in zip(idx, res):
                f = o.split("\t")
                if f[0] == "cost":
                    impl[i] = {"select": int(f[1]), "ancestors": int(f[2]), "descendants": int(f[3]), "selected": int(f[5]),
                               "ns": [int(x) for x in f[7:10]]}
                else:
                    out.violation("cost harness failed on %s: %s" % (rows[i][1], o[:200]), {"graph": sl.graphspec(rows[i][2])}, no_input=True)
            if timed_out:
                timeouts.append((fam, rows[idx[len(res)]][1] if len(res) < len(idx) else None, idx[len(res)] if len(res) < len(idx) else None))

    # which variant does the code follow, and does it stay below the polynomial bound?
    verdict = {}
    nontriv = set()
    samples = []
    if inproc:
        for a in ALGS:
            eq_paths = all(impl[i] is None or impl[i][a] == model[i]["paths"][a] for i in range(len(rows)))
            eq_vis = all(impl[i] is None or impl[i][a] == model[i]["calls"][a] for i in range(len(rows)))
            variant = "visited" if eq_vis else ("paths" if eq_paths else "neither")
            worst = None
            for i, (fam, name, g, top, bottom) in enumerate(rows):
                if impl[i] is None:
                    continue
                V, E = model[i]["V"], model[i]["E"]
                c = impl[i][a]
                if c > 1:
                    nontriv.add((a, name))
                # report the smallest width-2 ladder above the bound (the witness family of C19_poly_refuted), else the worst ratio
                if c > bound(V, E):
                    key = (0, -V) if fam == "ladder2" else (-1, c / bound(V, E))
                    if worst is None or key > worst[0]:
                        worst = (key, i)
            verdict[a] = {"variant": variant, "exceeds_bound_on": rows[worst[1]][1] if worst else None}
            if worst:
                i = worst[1]
                fam, name, g, top, bottom = rows[i]
                V, E = model[i]["V"], model[i]["E"]
                c = impl[i][a]
                # chain with the same number of nodes
                ch = [j for j, rw in enumerate(rows) if rw[0] == "chain" and len(rw[2]) >= V and impl[j] is not None]
                chain_txt = ""
                if ch:
                    j = ch[0]
                    chain_txt = "; %s costs %d" % (rows[j][1], impl[j][a])
                text = "class=%s %s makes %d calls on %s (V=%d, E=%d; 4*(V+E+1)^2 = %d)%s; the count is the number of dependency paths + 1 " \
                       "(Select.%s)%s" % (CLASSES[a], WHERE[a], c, name, V, E, bound(V, E), chain_txt,
                                          {"select": "select_paths_cost", "ancestors": "ancestors_paths_cost", "descendants": "descendants_paths_cost"}[a],
                                          ", as on all %d graphs of the run" % len(rows) if variant == "paths" else "")
                rp = {"algorithm": a, "graph_name": name, "graph": sl.graphspec(g), "from_node": top if a != "descendants" else bottom,
                      "calls": c, "V": V, "E": E, "bound": bound(V, E), "model_paths": model[i]["paths"][a], "model_calls": model[i]["calls"][a],
                      "model_visited_cost": model[i]["visited"][a],
                      "harness_line": "cost\t%s\t%d\t%d" % (sl.graphspec(g), top, bottom)}
                # class guard evaluated on the failing input: its count is the path count
                f = findings.get(CLASSES[a])
                if f and c == model[i]["paths"][a]:
                    out.known(f["id"], text)
                else:
                    out.violation("%s makes %d calls on %s: more than 4*(V+E+1)^2 = %d" % (WHERE[a], c, name, bound(V, E)), rp)
            elif variant != "visited":
                # below the bound everywhere, but not the traversal the model (and C19_*_calls / _cost_exact) describes
                j = next(i for i in range(len(rows)) if impl[i] is not None and impl[i][a] != model[i]["calls"][a])
                fam, name, g, top, bottom = rows[j]
                out.violation("correspondence Select.%s_visited_calls ~ %s broke: %d entries on %s, the model enters %d times (%s); no count exceeds "
                              "the polynomial bound" % (a, WHERE[a], impl[j][a], name, model[j]["calls"][a],
                                                        "the counts are those of the historical path enumeration" if variant == "paths" else
                                                        "neither the visited traversal nor the path enumeration"),
                              {"correspondence": "entries into the recursive function", "algorithm": a, "graph_name": name, "graph": sl.graphspec(g),
                               "calls": impl[j][a], "model_calls": model[j]["calls"][a], "model_paths": model[j]["paths"][a],
                               "harness_line": "cost\t%s\t%d\t%d" % (sl.graphspec(g), top, bottom)}, no_input=True)
        for fam, name, i in timeouts:
            if i is None:
                continue
            g = rows[i][2]
            V, E = model[i]["V"], model[i]["E"]
            text = "the cost harness timed out on %s (V=%d, E=%d) while chains of the same size are instant" % (name, V, E)
            known = [findings.get(CLASSES[a]) for a in ALGS if findings.get(CLASSES[a]) and model[i]["paths"][a] > bound(V, E)]
            if known and all(verdict[a]["variant"] == "paths" for a in ALGS if model[i]["paths"][a] > bound(V, E)):
                out.known(known[0]["id"], "class=%s %s" % (known[0]["class"], text))
            else:
                out.violation(text, {"graph_name": name, "graph": sl.graphspec(g), "timeout": True})
        for i in (5, 14, len(rows) - 1):
            if i < len(rows) and impl[i]:
                samples.append({"graph": rows[i][1], "V": model[i]["V"], "E": model[i]["E"], "impl_calls": {a: impl[i][a] for a in ALGS},
                                "model_calls": model[i]["calls"], "model_cost": model[i]["visited"], "historical_paths_calls": model[i]["paths"],
                                "impl_ns": impl[i]["ns"]})

    conflict_table = conflict_cost(out, h, tier) if inproc else []
    cli = cli_tie(out, tier, findings)
    prop = propagation_cost(out, tier)
    selerr = selection_error_cost(out, tier)
    table = []
    for i, (fam, name, g, top, bottom) in enumerate(rows):
        if fam in ("ladder2", "chain") and impl[i]:
            table.append({"graph": name, "V": model[i]["V"], "E": model[i]["E"], "select_calls": impl[i]["select"],
                          "descendants_calls": impl[i]["descendants"], "model_select_calls": model[i]["calls"]["select"],
                          "model_select_cost": model[i]["visited"]["select"], "select_ns": impl[i]["ns"][0]})
    out.cov.update({
        "evaluations": len(rows) * (len(ALGS) if inproc else 0) + len(rows),
        "distinct_nontrivial": len(nontriv),
        "rule": "graph families ladder(2,d), ladder(3,d), dense(n), dense_k(n,3), chain(n), deep ladders (d up to 120/200) and random DAGs; per graph the exact number of "
                "entries into selectAllAncestorsForBuild (top node selected), GetAncestors(top), GetDescendants(bottom); non-trivial = more "
                "than one call; distinct = distinct (algorithm, graph)",
        "samples": samples,
        "traces_validated_against_impl": len(rows) * len(ALGS) if inproc else 0,
        "input_distribution": {fam: len(gs) for fam, gs in fams},
        "variant_followed_by_the_code": verdict,
        "counts_by_depth": table,
        "harness_wall_s_by_family_supporting_only": wall,
        "inprocess_tie": inproc,
        "conflict_detection_counts": conflict_table,
        "cli_tie": cli,
        "failure_propagation": prop,
        "selection_error_path": selerr,
    })
    out.assumptions += [
        "calls are counted exactly: len(GetAncestors(n))+1, len(GetDescendants(n))+1, and Select() invocations on counting BuildNodes for "
        "selectAllAncestorsForBuild (one Select() immediately before every entry, none elsewhere)",
        "model cost = function entries + edges inspected (loop iterations); a map lookup/insert is taken as one step; the implementation's "
        "entries are counted, its edge inspections follow from the entries by C19_*_cost_exact (every entered node's edge list is iterated once)",
        "output-conflict detection: the work of analysis.getAncestorSet is counted as GetLabel() calls on counting nodes during BuildGraph "
        "(every second node is a real Target declaring one shared output so that all pairs are compared, the others are counting nodes "
        "WITHOUT outputs); it depends on map iteration order and is compared with the polynomial bound only (no model twin, no theorem)",
        "small polynomial = 4*(V+E+1)^2"]


def conflict_cost(out, h, tier):
    """Output-conflict detection (analysis.BuildGraph -> detectOutputConflicts -> getAncestorSet) on ladders, dense
    DAGs and chains: operation count (GetLabel calls on the counting nodes) against 4*(V+E+1)^2; a timeout while
    the chain of the same size is instant is a failing input as well."""
    quick = tier == "quick"
    fam = [("ladder2", [("ladder(2,%d)" % d, sl.ladder(2, d)) for d in (range(2, 15) if quick else range(2, 18))]),
           ("ladder3", [("ladder(3,%d)" % d, sl.ladder(3, d)) for d in (range(2, 8) if quick else range(2, 11))]),
           ("dense", [("dense(%d)" % n, sl.dense(n)) for n in ((6, 10, 14, 18) if quick else (6, 10, 14, 18, 24, 30))]),
           ("chain", [("chain(%d)" % n, sl.chain(n)) for n in (10, 26, 40)]),
           # beyond any fixed-size memo table an implementation might use: several hundred nodes
           ("large", [("ladder(2,150)", sl.ladder(2, 150)), ("ladder(2,300)", sl.ladder(2, 300)), ("chain(600)", sl.chain(600))])]
    table = []
    for name_f, gs, cmd in [(n, g, c) for n, g in fam for c in (("conflicts-ends",) if n == "large" else ("conflicts", "conflicts-ends"))]:
        lines = ["%s\t%s" % (cmd, sl.graphspec(g)) for _, g in gs]
        res, timed_out, secs = run_family(h, lines, timeout=20 if quick else 120)
        gs = [("%s[%s]" % (name, "every 2nd node has outputs" if cmd == "conflicts" else "only bottom and top have outputs"), g) for name, g in gs]
        for (name, g), o in zip(gs, res):
            f = o.split("\t")
            V, E = len(g), sum(len(ds) for ds in g)
            if f[0] != "conflicts":
                out.violation("conflict-cost harness failed on %s: %s" % (name, o[:200]), {"graph": sl.graphspec(g)}, no_input=True)
                continue
            c = int(f[1])
            table.append({"graph": name, "V": V, "E": E, "getlabel_calls": c, "bound": bound(V, E), "ns": int(f[4])})
            if c > bound(V, E):
                out.violation("output-conflict detection makes %d ancestor-set steps on %s (V=%d, E=%d): more than 4*(V+E+1)^2 = %d" % (
                    c, name, V, E, bound(V, E)),
                    {"algorithm": "analysis.detectOutputConflicts/getAncestorSet", "graph_name": name, "graph": sl.graphspec(g), "calls": c,
                     "bound": bound(V, E), "harness_line": "%s\t%s" % (cmd, sl.graphspec(g))})
                break
        if timed_out and len(res) < len(gs):
            name, g = gs[len(res)]
            V, E = len(g), sum(len(ds) for ds in g)
            out.violation("output-conflict detection does not finish within %ds on %s (V=%d, E=%d) while chains of the same size are instant" % (
                20 if quick else 120, name, V, E),
                {"algorithm": "analysis.detectOutputConflicts/getAncestorSet", "graph_name": name, "graph": sl.graphspec(g), "timeout": True,
                 "harness_line": "%s\t%s" % (cmd, sl.graphspec(g))})
    return table


def cli_tie(out, tier, findings):
    """`grog deps -t top` / `grog rdeps -t bottom` on a ladder print one line per distinct target (before the repair
    of C19-F2/F3: one line per dependency path)."""
    try:
        grog = vlib.build_grog()
    except vlib.HarnessUnavailable as e:
        out.notes.append("cli_tie: unavailable (%s)" % str(e)[-300:])
        return {"available": False}
    res = []
    for (w, d) in ([(2, 4), (2, 9), (3, 5)] if tier == "quick" else [(2, 4), (2, 9), (2, 13), (3, 5), (3, 8)]):
        g = sl.ladder(w, d)
        ws = os.path.join(vlib.scratch(), "c19ws_%d_%d" % (w, d))
        os.makedirs(ws, exist_ok=True)
        targets = [{"name": "n%d" % i, "command": "true", "dependencies": ["//:n%d" % j for j in ds]} for i, ds in enumerate(g)]
        with open(os.path.join(ws, "BUILD.json"), "w") as f:
            json.dump({"targets": targets}, f)
        open(os.path.join(ws, "grog.toml"), "w").write("")
        env = sl.grog_env(os.path.join(vlib.scratch(), "c19root"))
        top, V, E = len(g) - 1, len(g), sum(len(x) for x in g)
        p1 = vlib.run([grog, "deps", "-t", "//:n%d" % top], cwd=ws, env=env, timeout=300)
        p2 = vlib.run([grog, "rdeps", "-t", "//:n0"], cwd=ws, env=env, timeout=300)
        n1 = len([l for l in p1.stdout.split("\n") if l.startswith("//")])
        n2 = len([l for l in p2.stdout.split("\n") if l.startswith("//")])
        want = paths_calls(g, top) - 1
        want2 = paths_calls(g, 0, rev=True) - 1
        sets = (reach_count(g, top), reach_count(g, 0, rev=True))
        res.append({"graph": "ladder(%d,%d)" % (w, d), "deps_t_lines": n1, "rdeps_t_lines": n2, "paths": [want, want2], "distinct": list(sets)})
        for cmd, n, wp, ws_, cls in (("deps -t", n1, want, sets[0], "ancestors"), ("rdeps -t", n2, want2, sets[1], "descendants")):
            if n == ws_:
                continue   # one line per distinct target (= Select.*_visited_calls - 1)
            f = findings.get(CLASSES[cls])
            if f and n == wp:
                out.known(f["id"], "class=%s `grog %s` prints %d lines (one per dependency path) for %d distinct targets on ladder(%d,%d)" % (
                    CLASSES[cls], cmd, n, ws_, w, d))
            else:
                out.violation("`grog %s` on ladder(%d,%d) prints %d lines for %d distinct targets%s" % (
                    cmd, w, d, n, ws_, " (more than 4*(V+E+1)^2 = %d)" % bound(V, E) if n > bound(V, E) else
                    (" (one per dependency path)" if n == wp else "")),
                    {"graph_name": "ladder(%d,%d)" % (w, d), "graph": sl.graphspec(g), "cmd": "grog " + cmd, "lines": n, "distinct": ws_,
                     "paths": wp})
    return {"available": True, "runs": res}


def propagation_cost(out, tier):
    """Failure propagation in the walker (dag/graph_walker.go onComplete, under the completion mutex): the bottom target of a
    deep ladder fails; its dependants are (a) not selected (`grog build //:n0`), (b) all selected (`grog build //...`),
    (c) half selected (`grog build //:n<mid>`).  The build must end (with the failure) about as fast as on a chain of the same
    size: a traversal that enumerates dependency paths needs w^d steps (3^22, 2^40) and does not end."""
    try:
        grog = vlib.build_grog()
    except vlib.HarnessUnavailable as e:
        out.notes.append("propagation_cost: unavailable (%s)" % str(e)[-300:])
        return {"available": False}
    LIMIT = 25.0
    res = []
    shapes = [("ladder", 3, 22), ("ladder", 2, 40)] + ([("ladder", 3, 40), ("ladder", 4, 30)] if tier != "quick" else [])
    for fam, w, d in shapes:
        g = sl.ladder(w, d)
        V = len(g)
        for gname, gg in (("%s(%d,%d)" % (fam, w, d), g), ("chain(%d)" % V, sl.chain(V))):
            ws = os.path.join(vlib.scratch(), "c19prop_%s" % gname.replace("(", "_").replace(")", "").replace(",", "_"))
            os.makedirs(ws, exist_ok=True)
            targets = [{"name": "n%d" % i, "command": "exit 1" if i == 0 else "true", "dependencies": ["//:n%d" % j for j in ds]}
                       for i, ds in enumerate(gg)]
            with open(os.path.join(ws, "BUILD.json"), "w") as f:
                json.dump({"targets": targets}, f)
            open(os.path.join(ws, "grog.toml"), "w").write("")
            for sel, what in (("//:n0", "dependants not selected"), ("//...", "all dependants selected"), ("//:n%d" % (V // 2), "lower half selected")):
                env = sl.grog_env(os.path.join(vlib.scratch(), "c19proproot"))
                t = time.time()
                try:
                    p = subprocess.run([grog, "build", sel], cwd=ws, env=env, stdout=subprocess.PIPE, stderr=subprocess.PIPE, timeout=LIMIT, text=True)
                    rc, dt = p.returncode, time.time() - t
                except subprocess.TimeoutExpired:
                    rc, dt = "timeout", LIMIT
                res.append({"graph": gname, "V": V, "E": sum(len(x) for x in gg), "selection": sel, "rc": rc, "seconds": round(dt, 2)})
                if rc == "timeout":
                    out.violation("`grog build %s` on %s (%d targets, the bottom target fails, %s) did not end within %.0f s: failure propagation "
                                  "is not polynomial in the number of targets and edges" % (sel, gname, V, what, LIMIT),
                                  {"graph_name": gname, "graph": sl.graphspec(gg), "cmd": "grog build " + sel, "failing_target": "//:n0", "limit_s": LIMIT})
                elif rc == 0:
                    out.violation("`grog build %s` on %s succeeded although //:n0 fails" % (sel, gname),
                                  {"graph_name": gname, "graph": sl.graphspec(gg), "cmd": "grog build " + sel}, no_input=True)
    return {"available": True, "limit_s": LIMIT, "runs": res}


def selection_error_cost(out, tier):
    """The ERROR path of build selection: a deep ladder below the selected target plus ONE platform-incompatible transitive
    dependency (reached last from the top / hanging below the bottom / in the middle).  `grog build //:top` must report the
    platform error about as fast as on a chain: an error path that searches the dependency chain by enumerating paths needs
    2^40 steps."""
    try:
        grog = vlib.build_grog()
    except vlib.HarnessUnavailable as e:
        out.notes.append("selection_error_cost: unavailable (%s)" % str(e)[-300:])
        return {"available": False}
    LIMIT = 25.0
    res = []
    for w, d in ([(2, 40), (3, 22)] + ([(3, 40)] if tier != "quick" else [])):
        g = sl.ladder(w, d)
        V = len(g)
        for where in ("top-last", "top-first", "bottom", "middle"):
            deps = [list(ds) for ds in g]
            guard = V            # index of the extra node
            host = {"top-last": V - 1, "top-first": V - 1, "bottom": 0, "middle": V // 2}[where]
            if where == "top-first":
                deps[host] = [guard] + deps[host]
            else:
                deps[host] = deps[host] + [guard]
            gname = "ladder(%d,%d)+guard@%s" % (w, d, where)
            ws = os.path.join(vlib.scratch(), "c19sel_%d_%d_%s" % (w, d, where))
            os.makedirs(ws, exist_ok=True)
            targets = [{"name": "n%d" % i, "command": "true", "dependencies": ["//:n%d" % j for j in ds]} for i, ds in enumerate(deps)]
            targets.append({"name": "n%d" % guard, "command": "true", "platforms": ["plan9/386"]})
            with open(os.path.join(ws, "BUILD.json"), "w") as f:
                json.dump({"targets": targets}, f)
            open(os.path.join(ws, "grog.toml"), "w").write("")
            env = sl.grog_env(os.path.join(vlib.scratch(), "c19selroot"))
            t = time.time()
            try:
                p = subprocess.run([grog, "build", "//:n%d" % (V - 1)], cwd=ws, env=env, stdout=subprocess.PIPE, stderr=subprocess.PIPE,
                                   timeout=LIMIT, text=True)
                rc, dt, msg = p.returncode, time.time() - t, (p.stdout + p.stderr)[-300:]
            except subprocess.TimeoutExpired:
                rc, dt, msg = "timeout", LIMIT, ""
            res.append({"graph": gname, "V": V + 1, "rc": rc, "seconds": round(dt, 2)})
            rp = {"graph_name": gname, "graph": sl.graphspec(deps + [[]]), "incompatible_node": "//:n%d" % guard, "cmd": "grog build //:n%d" % (V - 1), "limit_s": LIMIT}
            if rc == "timeout":
                out.violation("`grog build //:n%d` on %s (one platform-incompatible dependency) did not end within %.0f s: the error path of "
                              "selection is not polynomial in the number of targets and edges" % (V - 1, gname, LIMIT), rp)
            elif rc == 0 or "platform" not in msg.lower():
                out.violation("`grog build //:n%d` on %s: a selected target has a platform-incompatible dependency but the build does not report it "
                              "(rc %s: %s)" % (V - 1, gname, rc, " ".join(msg.split())[-160:]), dict(rp, output=msg), no_input=True)
    return {"available": True, "limit_s": LIMIT, "runs": res}


def replay(out, path):
    rp = json.load(open(path))["replay"]
    if "harness_line" not in rp and "graph" in rp:
        n = len(rp["graph"].split(","))
        rp["harness_line"] = "cost\t%s\t%d\t0" % (rp["graph"], n - 1)
    if "harness_line" not in rp:
        print("nothing to replay in", path)
        return
    h = vlib.build_harness("select")
    res, timed_out, secs = run_family(h, [rp["harness_line"]], timeout=600)
    print("impl :", res, "timeout" if timed_out else "", "%.2fs" % secs)
    _, mo, _ = vlib.run_lines(vlib.build_driver("select"), [rp["harness_line"].replace("cost\t", "costv\t", 1)])
    print("model:", mo)
    mf = mo[0].split("\t") if mo else []
    mc = {"select": int(mf[9]), "ancestors": int(mf[10]), "descendants": int(mf[11])} if len(mf) > 11 else None
    V, E = rp.get("V"), rp.get("E")
    if V is None and "graph" in rp:
        gl = [[] if x == "-" else x.split(".") for x in rp["graph"].split(",")]
        V, E = len(gl), sum(len(x) for x in gl)
    if timed_out:
        out.violation("replay: still times out", rp)
    elif res:
        f = res[0].split("\t")
        c = {"select": int(f[1]), "ancestors": int(f[2]), "descendants": int(f[3])}
        a = rp.get("algorithm") or {"grog deps -t": "ancestors", "grog rdeps -t": "descendants"}.get(rp.get("cmd"))
        print("calls:", c, "model calls:", mc, "bound:", bound(V, E))
        for a in ([a] if a else ALGS):
            if c[a] > bound(V, E):
                out.violation("replay: %s still makes %d calls > %d" % (a, c[a], bound(V, E)), rp)
            elif mc and c[a] != mc[a]:
                out.violation("replay: %s still makes %d calls, the model (one entry per distinct node) %d" % (a, c[a], mc[a]), rp)
