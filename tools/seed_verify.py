#!/usr/bin/env python3
"""seed_verify.py <scratch worktree> <seed id> <property id>
Independent confirmation of a seeded property-breaking change delivered by a sub-agent in
<worktree>/zz_seeded/ (patch.diff, run_demo.sh, demo files, notes.md):
  1. the patch applies on a clean checkout of the worktree's HEAD,
  2. go build ./... succeeds with it,
  3. every test of the pinned baseline (BASELINE.json stable_pass) still passes with it
     (demo test files moved out of the way while the suite runs),
  4. the demonstration fails with the change and passes without it.
On success copies patch.diff + demonstration + notes into /verif/seeded/<seed id>/ and writes meta.json
(without the 'caught_by' part, which ./tools/seed_run.py fills in)."""
import json, os, shutil, subprocess, sys, glob

ENV = dict(os.environ, GOFLAGS="-mod=mod", GOPROXY="off")
ENV.pop("GOTOOLCHAIN", None); ENV.pop("GOSUMDB", None)


def sh(cmd, cwd, timeout=3000):
    p = subprocess.run(cmd, cwd=cwd, env=ENV, shell=isinstance(cmd, str), stdout=subprocess.PIPE, stderr=subprocess.STDOUT,
                       text=True, timeout=timeout)
    return p.returncode, p.stdout


def demo_files(wt):
    """untracked files outside zz_seeded (the agent's demo tests living inside packages)"""
    rc, out = sh("git status --porcelain --untracked-files=all", wt)
    res = []
    for line in out.splitlines():
        if line.startswith("??"):
            f = line[3:].strip()
            if not f.startswith("zz_seeded/"):
                res.append(f)
    return res


def passing_tests(wt):
    rc, out = sh("go test -vet=off -count=1 -json -timeout 25m ./...", wt, timeout=3000)
    passed = set()
    for line in out.splitlines():
        try:
            e = json.loads(line)
        except Exception:
            continue
        if e.get("Action") == "pass" and e.get("Test"):
            passed.add("%s::%s" % (e["Package"], e["Test"]))
    return passed


def main():
    wt, sid, pid = sys.argv[1], sys.argv[2], sys.argv[3]
    sd = os.path.join(wt, "zz_seeded")
    patch = os.path.join(sd, "patch.diff")
    report = {"seed": sid, "property": pid, "steps": []}
    base = json.load(open("/root/.vp/BASELINE.json"))["stable_pass"]
    extra = demo_files(wt)
    # stash demo files that live inside packages
    hold = os.path.join(sd, "_hold")
    os.makedirs(hold, exist_ok=True)

    def move_out():
        for f in extra:
            if os.path.exists(os.path.join(wt, f)):
                os.makedirs(os.path.dirname(os.path.join(hold, f)), exist_ok=True)
                shutil.move(os.path.join(wt, f), os.path.join(hold, f))

    def move_in():
        for f in extra:
            if os.path.exists(os.path.join(hold, f)):
                os.makedirs(os.path.dirname(os.path.join(wt, f)), exist_ok=True)
                shutil.move(os.path.join(hold, f), os.path.join(wt, f))

    # 1. clean checkout + apply
    move_out()
    sh("git checkout -- .", wt)
    rc, out = sh(["git", "apply", "--check", patch], wt)
    report["steps"].append({"patch_applies_on_clean_checkout": rc == 0, "out": out[-300:]})
    if rc != 0:
        move_in(); print(json.dumps(report, indent=1)); return 1
    # 4a. demo without the change
    move_in()
    rc0, out0 = sh("sh zz_seeded/run_demo.sh", wt, timeout=1800)
    report["steps"].append({"demo_without_change_exit": rc0, "tail": out0[-400:]})
    # apply
    sh(["git", "apply", patch], wt)
    rc1, out1 = sh("sh zz_seeded/run_demo.sh", wt, timeout=1800)
    report["steps"].append({"demo_with_change_exit": rc1, "tail": out1[-600:]})
    # 2./3. build + suite with the change, demo files out of the way
    move_out()
    rcb, outb = sh("go build ./...", wt)
    report["steps"].append({"builds": rcb == 0, "out": outb[-300:]})
    passed = passing_tests(wt)
    missing = [t for t in base if t not in passed]
    # a test that did not pass under the load of the full parallel run is re-run on its own (the machine runs many
    # other jobs at the same time; internal/worker has a timing-sensitive test): it counts as passing iff it passes alone
    retried = []
    for t in list(missing):
        pkg, name = t.split("::", 1)
        rel = "./" + pkg[len("grog/"):] if pkg.startswith("grog/") else pkg
        rcx, outx = sh(["go", "test", "-vet=off", "-count=2", "-run", "^" + name.split("/")[0] + "$", rel], wt, timeout=1200)
        retried.append({"test": t, "alone_exit": rcx})
        if rcx == 0:
            missing.remove(t)
    if retried:
        report["steps"].append({"retried_alone": retried})
    report["steps"].append({"baseline_tests": len(base), "still_passing": len(base) - len(missing), "missing": missing[:10]})
    move_in()
    ok = rc0 == 0 and rc1 != 0 and rcb == 0 and not missing
    report["confirmed"] = ok
    if ok:
        dest = os.path.join("/verif/seeded", sid)
        shutil.rmtree(dest, ignore_errors=True)
        os.makedirs(dest)
        for f in os.listdir(sd):
            if f == "_hold":
                continue
            src = os.path.join(sd, f)
            if os.path.isfile(src):
                shutil.copy(src, dest)
        for f in extra:
            # demo files living in packages: keep them with their relative path encoded
            if os.path.isfile(os.path.join(wt, f)):
                shutil.copy(os.path.join(wt, f), os.path.join(dest, "demo__" + f.replace("/", "__") + ".txt"))
        notes = open(os.path.join(sd, "notes.md")).read() if os.path.exists(os.path.join(sd, "notes.md")) else ""
        meta = {"id": sid, "breaks_property": pid,
                "needs_to_manifest": "see notes.md",
                "demo_files_in_tree": extra,
                "confirmed_by_me": {"patch_applies_on_clean_checkout": True, "go_build": True,
                                    "baseline_stable_pass_still_passing": "%d/%d" % (len(base) - len(missing), len(base)),
                                    "demo_exit_without_change": rc0, "demo_exit_with_change": rc1,
                                    "commands": ["git apply --check patch.diff", "sh zz_seeded/run_demo.sh (before/after git apply)",
                                                 "go build ./...", "go test -vet=off -count=1 -json -timeout 25m ./... (demo files moved out)"]},
                "checks_run": []}
        json.dump(meta, open(os.path.join(dest, "meta.json"), "w"), indent=1)
    shutil.rmtree(hold, ignore_errors=True)
    print(json.dumps(report, indent=1)[:3000])
    return 0 if ok else 1


if __name__ == "__main__":
    sys.exit(main())
