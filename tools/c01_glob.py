"""Glob stage of C01/C02: the input-pattern language (Glob.v) against the loader (resolveInputs + doublestar.Glob).

Three line protocols, each answered by the real code (harness/go/glob, built with -overlay, one add-only export file injected
into internal/loading) and by the extracted model (coq/extract/Extract_glob.v + ocaml/glob/driver.ml):
  match   pattern path    does doublestar.Glob(.., WithFilesOnly()) -- the call resolveInputs makes -- select the file
  isglob  string          the loader's own "is this entry a glob" test (observed through resolveInputs on an empty directory)
  resolve files|inputs|excludes   the real resolveInputs on a fresh directory, compared as SORTED lists (hashInputFiles and
                          sorted() sort the list before it reaches the key; doublestar's walk order is not modelled)
The model answers `uncovered` outside the fragment Glob.covered describes (nested alternatives, escapes of non-meta characters,
`/ { } ,` inside classes, empty / `.` / `..` pattern segments); such cases are counted and skipped, never compared.
Model-free oracles (decide a VIOLATION with the case as failing input):
  O1  a pattern without any of the bytes * ? [ ] { } \\ , selects exactly the path spelled like it
  O2  an entry that selects some path spelled differently from it must be a glob for the loader (isglob true): otherwise the
      loader keeps it as a literal file name and the files it stands for never reach the key  (seeded change C02m)
A model/implementation difference with all oracles passing is reported with no_input=True (the correspondence broke).
"""
import itertools
import os
import time

import vlib

INJECT = {os.path.join(vlib.REPO, "internal", "loading", "zz_verif_glob_export.go"):
          os.path.join(vlib.HARNESS, "glob", "inject", "zz_verif_glob_export.go")}
SUB = "ab/*?{},"                 # exhaustive up to length EXH_LEN
FULL = "ab/.*?[]{},!-\\^"
PATH_ALPHA = "ab/."
PLAIN = set("*?[]{}\\,")
hx = vlib.hx
CAP = 12


def valid_path(p):
    return p != "" and all(s not in ("", ".", "..") for s in p.split("/"))


def paths_upto(n):
    res = []
    for k in range(1, n + 1):
        for t in itertools.product(PATH_ALPHA, repeat=k):
            p = "".join(t)
            if valid_path(p):
                res.append(p)
    return res


STRUCT_SEGS = ["a", "b", "*", "?", "**", "a*", "*b", "*.a", "[ab]", "[a-b]", "[!a]", "[^b]", "{a,b}", "{a,b*}", "a{,b}", "\\*", "\\[a",
               "{a/b,b}", "a?", "[a-]", "[]a]", "{a,}", "b{a,}", "{,a}b", ".a", "a.b", "*.{a,b}", "{*,a}", "[a\\]]", "{a}", "\\{a\\}"]


def gen_patterns(rng, tier):
    pats = []
    exh = 4 if tier == "quick" else 5
    for k in range(0, exh + 1):
        for t in itertools.product(SUB, repeat=k):
            pats.append("".join(t))
    for n in (1, 2, 3):                                 # structured: / joined segments
        for t in itertools.product(STRUCT_SEGS, repeat=n):
            if n < 3 or rng.below(100) < (4 if tier == "quick" else 30):
                pats.append("/".join(t))
    for _ in range(3000 if tier == "quick" else 60000):  # random longer ones over the full alphabet
        k = 3 + rng.below(6)
        pats.append("".join(FULL[rng.below(len(FULL))] for _ in range(k)))
    seen, res = set(), []
    for p in pats:
        if p not in seen:
            seen.add(p)
            res.append(p)
    return res


def match_paths():
    """The file paths the match cases draw from."""
    return paths_upto(4) + ["a/b/a.b", "b/a/b/a", "a.b/a/b", "a/a/a/a/b"]


FILES_POOL = ["a.txt", "b.txt", "src/a.txt", "src/b.md", "src/sub/c.txt", "src/sub/deep/d.txt", "lib/a.txt", "lib/x/b.txt", "a", "b/a"]
ENTRY_POOL = ["*.txt", "**/*.txt", "src/**", "src/*", "src/{a,b}.*", "{src,lib}/*.txt", "src/[ab].txt", "missing.txt", "a.txt", "src/a.txt",
              "**", "*/a.txt", "src/**/*.txt", "{a,b}.txt", "lib/?/*.txt", "src/sub/c.txt", "**/a.txt", "[!a].txt", "*", "b/*", "{a,b/a}"]


def resolve_entries(pats):
    """The generated patterns short enough to be mixed into the inputs / excludes of the resolve cases."""
    return [p for p in pats if len(p) <= 6][:4000]


def gen_resolve_case(rng, good):
    """(files of the package, inputs, exclude_inputs): three quarters of the entries from ENTRY_POOL, the rest from good."""
    fs_ = sorted(set(FILES_POOL[rng.below(len(FILES_POOL))] for _ in range(rng.below(8))))
    if "a" in fs_ and any(f.startswith("a/") for f in fs_):
        fs_.remove("a")
    pick = lambda: ENTRY_POOL[rng.below(len(ENTRY_POOL))] if rng.below(4) else good[rng.below(len(good))]
    ins = [pick() for _ in range(rng.below(6))]
    exs = [pick() for _ in range(rng.below(3))] if rng.below(2) else []
    return fs_, ins, exs


def resolve_line(c):
    return "resolve\t%s\t%s\t%s" % tuple(",".join(hx(x) for x in l) for l in c)


def both(h, drv, lines):
    rc1, impl, err1 = vlib.run_lines(h, lines)
    rc2, mod, err2 = vlib.run_lines(drv, lines)
    if rc1 != 0 or rc2 != 0 or len(impl) != len(lines) or len(mod) != len(lines):
        raise RuntimeError("glob stage: harness rc=%s (%d answers) driver rc=%s (%d answers) for %d lines: %s %s" % (
            rc1, len(impl), rc2, len(mod), len(lines), err1[:700], err2[:300]))
    return impl, mod


def glob_stage(out, tier):
    t0 = time.time()
    rng = vlib.Rng(vlib.seed() * 7919 + 13)
    drv = vlib.build_driver("glob")
    h = vlib.build_harness("glob", extra_overlay=INJECT)
    cov = {"match_cases": 0, "match_uncovered": 0, "match_bad": 0, "match_true": 0, "match_glob_vs_Match_differ": 0,
           "isglob_cases": 0, "isglob_true": 0, "resolve_cases": 0, "resolve_uncovered": 0, "resolve_err": 0,
           "oracle_literal": 0, "oracle_isglob": 0, "mismatches": 0}
    pats = gen_patterns(rng, tier)
    paths = match_paths()
    per = 6 if tier == "quick" else 14
    # ---- isglob on every pattern
    il = ["isglob\t" + hx(p) for p in pats]
    ii, im = both(h, drv, il)
    isg = {}
    for p, a, b in zip(pats, ii, im):
        cov["isglob_cases"] += 1
        cov["isglob_true"] += a == "true"
        isg[p] = a == "true"
        if a != b:
            cov["mismatches"] += 1
            cov["isglob_mismatches"] = cov.get("isglob_mismatches", 0) + 1
            if cov["isglob_mismatches"] <= 3:
                report(out, "isglob", p, None, a, b, oracle=None)
    # ---- match
    cases = []
    for p in pats:
        cand = [p] if valid_path(p) and not (set(p) & set('*?[]{}\\')) else []   # file names are free of meta characters (see NAMES)
        cand += [paths[rng.below(len(paths))] for _ in range(per)]
        for s in dict.fromkeys(cand):
            cases.append((p, s))
    ml = ["match\t%s\t%s" % (hx(p), hx(s)) for p, s in cases]
    mi, mm = both(h, drv, ml)
    reported = set()
    for (p, s), a, b in zip(cases, mi, mm):
        cov["match_cases"] += 1
        af, bf = a.split("\t"), b.split("\t")
        if len(af) == 2 and af[1] != "m=" + af[0]:
            cov["match_glob_vs_Match_differ"] += 1
        cov["match_true"] += af[0] == "true"
        # O1: metacharacter-free pattern selects exactly itself
        if not (set(p) & PLAIN) and valid_path(p):
            cov["oracle_literal"] += 1
            if af[0] != ("true" if s == p else "false"):
                out.violation("glob stage O1: the metacharacter-free entry %r %s the path %r" % (
                    p, "selects" if af[0] == "true" else "does not select", s), replay_of("match", p, s, a, b))
        # O2: an entry that selects a differently spelled path must be a glob for the loader
        if af[0] == "true" and s != p:
            cov["oracle_isglob"] += 1
            if not isg[p] and ("O2", p) not in reported:
                reported.add(("O2", p))
                cov["oracle_isglob_failed"] = cov.get("oracle_isglob_failed", 0) + 1
                if cov["oracle_isglob_failed"] > 5:
                    continue
                out.violation("glob stage O2: the entry %r selects the file %r through doublestar.Glob but the loader's glob test "
                              "says it is a literal file name (isglob %r -> false): the files it stands for are not part of the key" % (
                                  p, s, p), replay_of("isglob", p, s, "false", "true"))
        if bf[0] == "uncovered":
            cov["match_uncovered"] += 1
            continue
        cov["match_bad"] += bf[0] == "bad"
        if af[0] != bf[0]:
            cov["mismatches"] += 1
            if ("M", p) not in reported and len(reported) < CAP:
                reported.add(("M", p))
                report(out, "match", p, s, a, b, oracle=None)
    # ---- resolve
    rl, rcases = [], []
    good = resolve_entries(pats)
    for _ in range(400 if tier == "quick" else 6000):
        c = gen_resolve_case(rng, good)
        rcases.append(c)
        rl.append(resolve_line(c))
    ri, rm = both(h, drv, rl)
    for c, a, b in zip(rcases, ri, rm):
        cov["resolve_cases"] += 1
        if b == "uncovered":
            cov["resolve_uncovered"] += 1
            continue
        cov["resolve_err"] += b == "err"
        norm = lambda x: sorted(x.split("\t")[1].split(",")) if x.startswith("ok\t") else x
        if norm(a) != norm(b):
            cov["mismatches"] += 1
            if len(reported) < CAP:
                reported.add(("R", str(c)))
                report(out, "resolve", c, None, a, b, oracle=None)
    cov["patterns"] = len(pats)
    cov["seconds"] = round(time.time() - t0, 1)
    cov["fragment"] = ("bytes; * ? classes [..] [a-z] [!..] [^..], one level of {a,b}, ** segments, escapes of * ? [ ] { }; NOT covered "
                       "(skipped, counted as *_uncovered): nested alternatives, other escapes, / { } , inside classes, empty/./.. segments, "
                       "multi-byte runes, order and multiplicity of doublestar's result list (compared sorted)")
    out.cov["glob_stage"] = cov


def replay_of(kind, p, s, impl, model):
    return {"stage": "glob", "kind": kind, "pattern": p, "path": s, "implementation": impl, "model": model,
            "how": "build harness/go/glob (tools/c01_glob.py) and send `%s <hex>` lines" % kind}


def report(out, kind, p, s, a, b, oracle):
    out.violation("glob stage: correspondence Glob.v ~ resolveInputs/doublestar broke on %s %r %r: implementation %s, model %s" % (
        kind, p, s, a, b), replay_of(kind, p, s, a, b), no_input=True)


if __name__ == "__main__":
    import sys
    CAP = 500
    o = vlib.Outcome("C01", sys.argv[1] if len(sys.argv) > 1 else "quick")
    glob_stage(o, o.tier)
    import json
    print(json.dumps(o.cov, indent=1))
    for v in o.violations[:40]:
        print("VIOLATION", v["no_input"], v["what"])
    print(len(o.violations), "violations")
