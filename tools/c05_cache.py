"""C05 (e2e half) -- failures are contained and never cached.  Histories with failing commands
(exit 3 before or after writing, declared output not created, failing output check), keep-going and
fail-fast, real binary vs Build.v; model-free oracles: exit status, names on stderr, who ran, what is
in cache/target afterwards, and that the next build attempts the failed targets again."""
import json, os
import vlib, buildlib as bl, histcheck as hc, c13w
from c13 import cur_snap

GUARDS = []


def ancestors_failed(snap, failed_idx):
    """nodes that transitively depend on a failing target (a failing target that depends on another failing one included)"""
    res = set()
    for f in failed_idx:
        res |= hc.dependants_closure(snap, [f]) - {f}
    return res


def plan(features, ff):
    def p(h, r):
        notes = []
        cfg = {"mode": "all", "cache": True, "ff": ff, "workers": r.choice([1, 2, 4])}
        h.set_sources(bl.gen_snapshot(r, ntargets=3 + r.below(4), features=features))
        h.build(cfg); notes.append(("contain", len(h.builds) - 1))
        h.build(cfg); notes.append(("retry", len(h.builds) - 1))
        # repair every failing target: the build must now succeed and run what was never cached
        s2 = json.loads(json.dumps(h.snap))
        for n in s2["nodes"]:
            if n["k"] == "t":
                n["outs"] = [tuple(o) for o in n["outs"]]
                if n["beh"] != "n":
                    n["beh"] = "n"; n["salt"] = n["salt"] + "r"
        h.set_sources(s2, "repair all failing targets")
        h.build({"mode": "all", "cache": True}); notes.append(("repaired", len(h.builds) - 1))
        return notes
    return p


def cached_keys(h):
    res = []
    for dp, dn, fn in os.walk(h.root):
        if os.path.basename(dp) == "target":
            res += [f for f in fn if not f.startswith("tmp-")]
    return sorted(res)


def cache_half(out, tier):
    n = 20 if tier == "quick" else 400
    feats = dict(hc.CLEAN); feats.update({"fail": True, "check": False})
    def wb(h, r):
        # failing output check AFTER execution although the pre-execution check passed (cause 4 of the property)
        import c14
        c14.witness_break()(h, r)
        return [("contain", 1), ("retry", 2)]
    plans = [("witness-break-check", wb)] + [("keep-going", plan(feats, False))] * n + [("fail-fast", plan(feats, True))] * (n // 2)
    batch = hc.run_batch(plans, vlib.seed() + 5)
    hc.check_plan_errors(batch)
    findings = {f["class"]: f for f in vlib.known_findings("C05")}
    # a target that failed AFTER its command ran (post-execution check) is attempted again by the next build, also when it was tainted
    evals = c13w.witness_failed_check_keeps_taint(out)
    for name, h, notes, m in batch:
        for note in notes:
            bi = note[1]; b = h.builds[bi]
            cur = cur_snap(h, bi)
            nodes = cur["nodes"]
            failing = [i for i, n in enumerate(nodes) if n["k"] == "t" and n["beh"] != "n"]
            starts = set(b["starts"])
            predicted = bi < len(m) and (b["cfg"].get("ff") or sorted(b["starts"]) == m[bi]["exec"]) and (b["rc"] == 0) == m[bi]["ok"]
            evals += 1
            if note[0] in ("contain", "retry"):
                # which failing targets are reachable without passing another failing target
                blocked = ancestors_failed(cur, failing)
                active_fail = [i for i in failing if i not in blocked]
                if active_fail and b["rc"] == 0:
                    hc.decide(out, "C05", findings, h, "build %d exits 0 although %s fail" % (bi, [bl.label(nodes[i]) for i in active_fail]), predicted, GUARDS)
                if not failing and b["rc"] != 0:
                    hc.decide(out, "C05", findings, h, "build %d exits %s although no target fails: %s" % (bi, b["rc"], b["stderr"][-300:]), predicted, GUARDS)
                ran_blocked = [bl.label(nodes[i]) for i in blocked if nodes[i]["k"] == "t" and bl.label(nodes[i]) in starts]
                if ran_blocked:
                    hc.decide(out, "C05", findings, h, "targets %s ran although a transitive dependency failed" % ran_blocked, predicted, GUARDS)
                if not b["cfg"].get("ff"):
                    for i in active_fail:
                        lab = bl.label(nodes[i])
                        if lab not in b["stderr"] and lab not in b["stdout"]:
                            hc.decide(out, "C05", findings, h, "failed target %s is not named in the output of build %d" % (lab, bi), predicted, GUARDS)
                    if note[0] == "retry":
                        # the failed targets were not cached: the very next build attempts them again
                        notagain = [bl.label(nodes[i]) for i in active_fail if bl.label(nodes[i]) not in starts]
                        if notagain:
                            hc.decide(out, "C05", findings, h, "failed targets %s were not attempted again by the next build (cached failure?)" % notagain,
                                      predicted, GUARDS)
                        # independent targets are not affected: everything outside the failed cones was built in build 0 and is a hit now
                        indep_again = [l for l in starts if l not in {bl.label(nodes[i]) for i in active_fail}]
                        if indep_again:
                            hc.decide(out, "C05", findings, h, "targets %s re-ran in the retry build although they had succeeded" % sorted(indep_again),
                                      predicted, GUARDS)
            elif note[0] == "repaired":
                if b["rc"] != 0:
                    hc.decide(out, "C05", findings, h, "after repairing every failing target the build still exits %s: %s" % (b["rc"], b["stderr"][-300:]),
                              predicted, GUARDS)
    return batch, evals


def finish(out, batch, evals):
    hc.finish(out, "C05", batch,
              "e2e histories: workspace with randomly failing targets (exit 3 before/after writing, declared output not created), "
              "build, retry build, repair, build; keep-going with 1/2/4 workers and fail-fast; non-trivial = at least two operations and two builds",
              oracle_evals=evals)


if __name__ == "__main__":
    import sys
    o = vlib.Outcome("C05", "quick")
    b, e = cache_half(o, "quick")
    print(len(o.violations), [v["what"][:200] for v in o.violations[:5]])
    d = [hc.compare(h, m) for _, h, _, m in b]
    print("correspondence diffs:", sum(1 for x in d if x), [x[0] for x in d if x][:3])
