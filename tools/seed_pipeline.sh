#!/bin/sh
# seed_pipeline.sh id:prop[:extra-prop...] ...   verify each delivered seed in /tmp/wt/<id>, then run the checks against it
cd /verif
for x in "$@"; do
  id=$(echo $x | cut -d: -f1); props=$(echo $x | cut -d: -f2- | tr ':' ' ')
  first=$(echo $props | cut -d' ' -f1)
  if python3 tools/seed_verify.py /tmp/wt/$id $id $first > /tmp/chk/sv_$id.log 2>&1; then
    python3 tools/seed_run.py $id $props
  else
    echo "$id NOT CONFIRMED: $(grep -A3 'missing\|demo_with\|demo_without' /tmp/chk/sv_$id.log | tr '\n' ' ' | cut -c1-400)"
  fi
done
