"""History checks on the real binary vs Build.v: plans (what a history does), the correspondence
comparison, the model-free oracles of C01/C02/C05/C13/C14/C15 and the guard predicates that
classify an oracle failure as a known finding."""
import copy, json, os
import vlib, buildlib as bl

CLEAN = {"alias": False, "subdir": False, "nocache": False, "fail": False, "check": False}
FULL = {"alias": True, "subdir": True, "nocache": True, "fail": False, "check": False}
ALL_CACHE = {"mode": "all", "cache": True}


# ------------------------------------------------------------------ guards (mirror the boolean guards of the _partial theorems)
def snaps_of(h):
    return [o[1] for o in h.ops if o[0] == "S"]


def g_no_alias_deps(h):
    return all(all(s["nodes"][d]["k"] == "t" for d in n["deps"]) for s in snaps_of(h) for n in s["nodes"] if n["k"] == "t")


def g_no_nocache(h):
    return all(not n.get("nocache") for s in snaps_of(h) for n in s["nodes"] if n["k"] == "t")


def g_no_subdir_file_restore(h):
    """file_parent guard: no file output lives in a sub-directory that may be missing at restore time"""
    return all("/" not in p for s in snaps_of(h) for n in s["nodes"] if n["k"] == "t" for k, p in n["outs"] if k == "file")


def g_no_check_destroyed(h):
    return all(o[0] != "X" for o in h.ops)


def g_no_alias_or_nocache_in_minimal(h):
    return g_no_alias_deps(h) and g_no_nocache(h)


# ------------------------------------------------------------------ correspondence
def compare(h, mb, strict_ws=True):
    """Projected observables per build: exit status, executed multiset, state of every declared output."""
    diffs = []
    after_ff = False
    for bi, b in enumerate(h.builds):
        if bi >= len(mb):
            diffs.append((bi, "model has no build %d" % bi)); break
        m = mb[bi]
        if b["rc"] == "hang":
            diffs.append((bi, "implementation hangs")); continue
        if (b["rc"] == 0) != m["ok"]:
            diffs.append((bi, "exit status: impl rc=%s model ok=%s" % (b["rc"], m["ok"])))
        if b["cfg"].get("ff"):
            after_ff = True
            continue      # which targets had started (or were killed half-way) when fail-fast fired is schedule dependent
        if after_ff:
            # what a fail-fast build left behind (which targets completed and were cached) is schedule dependent too:
            # later builds are compared on exit status and, when successful, on the bytes of the outputs
            if b["rc"] == 0 and m["ok"] and strict_ws:
                for p, s in sorted(b["ws"].items()):
                    if bl.norm_state(s) != bl.norm_state(m["ws"].get(p, "A")):
                        diffs.append((bi, "output %s: impl %s model %s" % (p, s[:60], m["ws"].get(p, "A")[:60])))
            continue
        if sorted(b["starts"]) != m["exec"]:
            diffs.append((bi, "executed: impl %s model %s" % (sorted(b["starts"]), m["exec"])))
        if strict_ws:
            for p, s in sorted(b["ws"].items()):
                if bl.norm_state(s) != bl.norm_state(m["ws"].get(p, "A")):
                    diffs.append((bi, "output %s: impl %s model %s" % (p, s[:60], m["ws"].get(p, "A")[:60])))
    return diffs


def nocache_labels(snap):
    return {bl.label(n) for n in snap["nodes"] if n["k"] == "t" and n.get("nocache")}


# ------------------------------------------------------------------ plans
def plan_edits(features, nedits=3, cfg=None, clean_ref=True, noop=True, edit_features=None, forbid=()):
    cfg = cfg or ALL_CACHE

    def plan(h, r):
        notes = []
        snap = bl.gen_snapshot(r, features=features)
        h.set_sources(snap)
        h.build(cfg); notes.append(("first", len(h.builds) - 1))
        if noop:
            h.build(cfg); notes.append(("noop", len(h.builds) - 1))
        for _ in range(nedits):
            for _try in range(6):
                s2, why = bl.edit_snapshot(r, h.snap, edit_features)
                if not any(w in why for w in forbid) and (features.get("alias") or "alias" not in why):
                    break
            h.set_sources(s2, why)
            b = h.build(cfg); notes.append(("after-edit", len(h.builds) - 1))
            if clean_ref and b["rc"] == 0 and cfg["cache"] and cfg["mode"] == "all":
                ref = h.clean_reference(cfg)
                notes.append(("clean-ref", len(h.builds) - 1, ref))
        return notes
    return plan


def witness_alias_change():
    """C01: a change that reaches a target only through an alias is not in its key."""
    def plan(h, r):
        mk = lambda salt: {"nodes": [
            {"k": "t", "pkg": "p", "name": "d", "salt": salt, "ins": [], "glob": None, "excl": [], "outs": [("file", "d.out")], "deps": [],
             "fp": {}, "nocache": False, "multi": False, "beh": "n", "check": False, "comment": ""},
            {"k": "a", "pkg": "p", "name": "al", "actual": 0},
            {"k": "t", "pkg": "p", "name": "top", "salt": "v0", "ins": [], "glob": None, "excl": [], "outs": [("file", "top.out")], "deps": [1],
             "fp": {}, "nocache": False, "multi": False, "beh": "n", "check": False, "comment": ""}], "files": {}}
        h.set_sources(mk("v0")); h.build(ALL_CACHE)
        h.set_sources(mk("v1"), "command of //p:d (reaches //p:top through alias //p:al)")
        b = h.build(ALL_CACHE)
        return [("clean-ref", len(h.builds) - 1, h.clean_reference(ALL_CACHE))]
    return plan


def witness_file_boundary():
    """C01/C09: bytes move from the end of one input file to the start of the next.  The framed key encoding tells the two
    states apart: the target must be rebuilt and the incremental build must equal the from-scratch build (regression
    history of the former finding C01-F2)."""
    def plan(h, r):
        mk = lambda a, b: {"nodes": [
            {"k": "t", "pkg": "p", "name": "t", "salt": "v0", "ins": ["a.txt", "b.txt"], "glob": None, "excl": [], "outs": [("file", "t.out")],
             "deps": [], "fp": {}, "nocache": False, "multi": False, "beh": "n", "check": False, "comment": ""}],
            "files": {"p/a.txt": a, "p/b.txt": b}}
        h.set_sources(mk("xy", "z")); h.build(ALL_CACHE)
        h.set_sources(mk("x", "yz"), "byte moved from end of p/a.txt to start of p/b.txt")
        h.build(ALL_CACHE)
        return [("clean-ref", len(h.builds) - 1, h.clean_reference(ALL_CACHE))]
    return plan


def witness_glob_syntax(clean_ref=True):
    """C01/C02: every glob syntax the loader documents selects real files whose CONTENT is part of the key: for each pattern
    (braces only, `?`, a class, a star, braces with a star) build, edit one matched file, build (must re-execute: the incremental
    build equals the from-scratch build), build again (a no-op)."""
    def plan(h, r):
        pats = ["{f0,f1,f2}.txt", "f?.txt", "[fn]0.txt", "*.txt", "{f0,n1}.*"]
        mk = lambda v: {"nodes": [
            {"k": "t", "pkg": "p", "name": "g%d" % i, "salt": "v0", "ins": [], "glob": "src/" + pat, "excl": [], "outs": [("file", "g%d.out" % i)],
             "deps": [], "fp": {}, "nocache": False, "multi": False, "beh": "n", "check": False, "comment": ""} for i, pat in enumerate(pats)],
            "files": {"p/src/f0.txt": "f0-" + v, "p/src/f1.txt": "f1", "p/src/f2.txt": "f2", "p/src/n1.txt": "n1"}}
        h.set_sources(mk("a")); h.build(ALL_CACHE)
        h.set_sources(mk("b"), "content of p/src/f0.txt (matched by every pattern) edited")
        h.build(ALL_CACHE)
        notes = [("clean-ref", len(h.builds) - 1, h.clean_reference(ALL_CACHE))] if clean_ref else []
        h.build(ALL_CACHE)
        return notes + [("noop", len(h.builds) - 1)]
    return plan


# ------------------------------------------------------------------ running a batch
def run_batch(plans, seed_base, workers=32):
    """plans: list of (stream name, plan function).  Returns list of (stream, History, notes, model builds)."""
    grog = vlib.build_grog()
    base = vlib.scratch()

    def one(k):
        name, plan = plans[k]
        r = vlib.Rng(seed_base * 1000003 + k)
        h = bl.History(base, "%s-%d-%d" % (name, seed_base, k), grog)
        try:
            notes = plan(h, r)
        except Exception as e:      # a generator bug must not look like a pass
            notes = [("plan-error", repr(e))]
        return name, h, notes
    res = bl.parallel(one, range(len(plans)), workers)
    models = bl.run_model([h for _, h, _ in res])
    return [(n, h, notes, m) for (n, h, notes), m in zip(res, models)]


def cleanup(batch):
    import shutil
    for _, h, _, _ in batch:
        shutil.rmtree(h.dir, ignore_errors=True)


def decide(out, pid, findings, h, what, model_predicts_it, guards):
    """An oracle of the property failed on the implementation for history h.
    guards: list of (class name, guard predicate).  Known finding iff the faithful model predicts
    the same failure AND the guard of a listed class is false on this history."""
    if model_predicts_it:
        for cls, g in guards:
            if not g(h) and cls in findings:
                out.known(findings[cls]["id"], "class=%s %s [%s]" % (cls, what, "; ".join(h.desc)[:400]))
                return "known"
    rp = h.replay_dict()
    rp["oracle"] = what
    rp["model_predicts_failure"] = model_predicts_it
    rp["guards"] = {cls: g(h) for cls, g in guards}
    out.violation("%s [%s]" % (what, "; ".join(h.desc)[:300]), rp)
    return "violation"


def report_correspondence(out, pid, batch, max_report=1):
    """Model/implementation disagreements that no oracle explained."""
    n = 0
    total = 0
    for name, h, notes, m in batch:
        d = compare(h, m)
        total += len(h.builds)
        if d and n < max_report and not out.violations:
            n += 1
            rp = h.replay_dict()
            rp["correspondence"] = "Build.run_history vs grog build (exit status, executed multiset, bytes of declared outputs)"
            rp["differences"] = [x[1] for x in d[:6]]
            rp["model"] = m
            out.violation("correspondence Build.v ~ grog build broke: %s [%s]; no oracle of %s fails on the implementation" % (
                d[0][1], "; ".join(h.desc)[:300], pid), rp, no_input=True)
    return total


def stats(batch):
    st = {"histories": len(batch), "builds": 0, "executions": 0, "hits": 0, "failed_builds": 0, "edits": 0, "streams": {},
          # the decidable structural guard of KEYFAITH.v (cmd_faithful incl. the no-cache tag + unique printed labels + comma-free
          # output paths of no-cache targets), evaluated by the extracted model on the snapshots of every history: the guard under
          # which C01's theorems hold with no abstract premise.  No-cache targets are admitted by the theorems (op_ok / plain only ask
          # for a command), so the histories of the 'full' stream with no-cache targets count here too
          "histories_meeting_keyfaith_guard": sum(1 for _, _, _, m in batch if getattr(m, "guards", None) and m.guards.get("k"))}
    nontriv = set()
    for name, h, notes, m in batch:
        st["streams"][name] = st["streams"].get(name, 0) + 1
        st["builds"] += len(h.builds)
        st["executions"] += sum(len(b["starts"]) for b in h.builds)
        st["failed_builds"] += sum(1 for b in h.builds if b["rc"] != 0)
        st["edits"] += sum(1 for o in h.ops if o[0] == "S") - 1
        for mb in m:
            st["hits"] += mb["status"].count("h")
        if sum(1 for o in h.ops if o[0] in ("S", "T", "P", "X")) >= 2 and len(h.builds) >= 2:
            nontriv.add(json.dumps(h.ops, default=list, sort_keys=True))
    return st, nontriv


def sample(batch, k=2):
    res = []
    for name, h, notes, m in batch[:k]:
        res.append({"stream": name, "steps": h.desc,
                    "builds": [{"rc": b["rc"], "executed": sorted(b["starts"]), "model_status": mb["status"]} for b, mb in zip(h.builds, m)]})
    return res


# ------------------------------------------------------------------ graph helpers on snapshots (reference, model-free)
def dependants_closure(snap, idxs):
    """indices of the given nodes and everything that transitively depends on them (through aliases)"""
    nodes = snap["nodes"]
    res = set(idxs)
    changed = True
    while changed:
        changed = False
        for i, n in enumerate(nodes):
            ds = [n["actual"]] if n["k"] == "a" else n["deps"]
            if i not in res and any(d in res for d in ds):
                res.add(i); changed = True
    return res


def idx_of(snap, lab):
    for i, n in enumerate(snap["nodes"]):
        if bl.label(n) == lab:
            return i
    return None


def target_labels(snap, idxs=None):
    return {bl.label(n) for i, n in enumerate(snap["nodes"]) if n["k"] == "t" and (idxs is None or i in idxs)}


def finish(out, pid, batch, rule, extra=None, oracle_evals=0):
    builds = report_correspondence(out, pid, batch)
    st, nontriv = stats(batch)
    out.cov.update({"evaluations": st["builds"] + oracle_evals, "distinct_nontrivial": len(nontriv), "rule": rule,
                    "samples": sample(batch, 3), "traces_validated_against_impl": st["histories"],
                    "oracle_evaluations": oracle_evals, "input_distribution": st})
    if extra:
        out.cov.update(extra)
    out.assumptions += ["generated commands are deterministic functions of label, command text, declared inputs and the declared outputs "
                        "of direct (alias-resolved) dependencies",
                        "the model processes targets in one topological order (keep-going builds are schedule independent for "
                        "non-overlapping outputs; fail-fast builds are compared on exit status only)",
                        "digest function idealised as injective in the model"]
    cleanup(batch)


def perturbation_histogram(batch):
    """how often each prior state was put at an output path (by output kind), over all histories of the run"""
    hist = {}
    for name, h, notes, m in batch:
        kinds = {}
        for o in h.ops:
            if o[0] == "S":
                kinds = {bl.full(n["pkg"], p): k for n in o[1]["nodes"] if n["k"] == "t" for k, p in n["outs"]}
            elif o[0] == "P":
                key = "%s:%s" % (kinds.get(o[1], "?"), {"A": "absent", "N": "parent-absent", "W": "wrong-kind", "F": "other-content"}[o[2][0]])
                hist[key] = hist.get(key, 0) + 1
    return hist


def check_plan_errors(batch):
    for name, h, notes, m in batch:
        for note in notes:
            if note[0] == "plan-error":
                raise RuntimeError("plan error in %s: %s" % (name, note[1]))
