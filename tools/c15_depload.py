"""C15, stage `depload`: k dependants of ONE cache-hit dependency race on loading its outputs (load_outputs=minimal).
Deterministic tie between coq/theories/DepLoad.v and the real Executor.LoadDependencyOutputs / Registry.LoadOutputs:
harness/go/depload runs a schedule (which dependant starts when, which held blob read is released when) on the real code,
waiting for quiescence after every token; the model's verdict for the same tokens is DepLoad.replay evaluated by coqc
(vm_compute) on a generated cases file -- no extraction, no OCaml driver.
Compared per window (= what happened between two tokens): the blob reads held at the gate, the reads that arrived,
the commands that ran and what each saw.  Model-free oracle: every command saw every output current, no error, no hang."""
import ast, itertools, json, os, re, threading, time
import vlib

MAXN, MAXK = 3, 3
VARIANTS = ("VCorrect", "VFlagEarly", "VRequestedOnce")
NAMED = [  # (name, n, k, schedule)
    ("second dependant arrives while the first is inside the restore", 1, 2, "s0,s1,g"),
    ("second dependant arrives before the first has started", 1, 2, "s1,s0,g"),
    ("second dependant arrives after the restore", 1, 2, "s0,g,s1"),
    ("second dependant arrives between two restores", 2, 2, "s0,g,s1,g"),
    ("three dependants, two arrive during the restore", 2, 3, "s0,s1,s2,g,g"),
    ("three dependants, one during, one after", 2, 3, "s0,s1,g,g,s2"),
    ("no outputs", 0, 3, "s0,s1,s2"),
    ("three outputs released highest first", 3, 2, "s0,G,s1,G,G"),
]


def small_schedules():
    """Every interleaving of the k starts (in every order) with n releases, n <= MAXN, k <= MAXK."""
    res = []
    for n in range(MAXN + 1):
        for k in range(1, MAXK + 1):
            for order in itertools.permutations(range(k)):
                for gpos in itertools.combinations(range(n + k), n):
                    toks, it = [], iter(order)
                    for i in range(n + k):
                        toks.append("g" if i in gpos else "s%d" % next(it))
                    res.append((n, k, ",".join(toks), ""))
    return res


def random_schedules(r, count):
    res = []
    for _ in range(count):
        n = r.choice([0, 1, 1, 2, 2, 3, 3, 3])
        k = r.choice([2, 2, 3, 3, 4, 5])
        started = r.sample(list(range(k)), k if r.chance(5, 6) else max(1, k - 1))
        toks = ["s%d" % t for t in started] + [r.choice(["g", "g", "G"]) for _ in range(r.below(n + 2))]
        res.append((n, k, ",".join(r.shuffle(toks)), "".join(r.choice(["s", "m"]) for _ in range(n))))
    return res


# ------------------------------------------------------------------ implementation side
def parse_trace(line):
    """'trace\\t<w>;<w>;...;end/<pending>/<verdict>' -> dict(windows=[{tok, held, events}], pending, verdict)"""
    f = line.split("\t")
    if f[0] != "trace":
        return {"error": line}
    ws = f[1].split(";")
    end = ws.pop().split("/")
    windows = []
    for x in ws:
        tok, held, evs = x.split("/")
        windows.append({"tok": tok, "held": [] if held == "-" else [int(i) for i in held.split("+")],
                        "events": [] if evs == "-" else evs.split(",")})
    return {"windows": windows, "pending": [] if end[1] == "-" else [int(i) for i in end[1].split("+")], "verdict": end[2]}


def run_harness(binary, cases, jobs=4):
    """cases: [(n, k, schedule, init)] -> parsed traces, same order; `jobs` harness processes side by side."""
    chunks = [cases[i::jobs] for i in range(jobs)] if len(cases) >= 4 * jobs else [cases]
    outs, errs = [None] * len(chunks), []

    def work(i):
        d = os.path.join(vlib.scratch(), "depload-%d" % i)
        os.makedirs(d, exist_ok=True)
        try:
            rc, lines, err = vlib.run_lines(binary, ["case\t%d\t%d\t%s\t%s" % c for c in chunks[i]] + ["caps"], timeout=1500, args=(d,))
            if rc != 0 or len(lines) != len(chunks[i]) + 1:
                errs.append("harness exit %s, %d answers for %d cases: %s" % (rc, len(lines), len(chunks[i]), err[-800:]))
            outs[i] = lines
        except Exception as e:  # noqa
            errs.append("%s: %s" % (type(e).__name__, e))
    ths = [threading.Thread(target=work, args=(i,)) for i in range(len(chunks))]
    [t.start() for t in ths]
    [t.join() for t in ths]
    if errs:
        raise RuntimeError("depload harness: " + "; ".join(errs)[:1500])
    res, cap = [None] * len(cases), None
    for i, lines in enumerate(outs):
        cap = int(lines[-1].split("\t")[1])
        for j, line in enumerate(lines[:-1]):
            res[i + j * len(chunks)] = parse_trace(line)
    return res, cap


# ------------------------------------------------------------------ model side (coqc + vm_compute)
def model_tokens(n, tr):
    """The model's token list for an implementation trace: which read was released is taken from the trace."""
    toks = []
    for w in tr["windows"]:
        t = w["tok"]
        if t.startswith("s"):
            toks.append("A %d" % int(t[1:]))
        elif t == "g:-":
            toks.append("B %d" % n)        # nothing held: an index that is never enabled
        else:
            toks.append("B %d" % int(t[2:]))
    return toks


def model_eval(cases, traces):
    """-> {(variant, asc): [windows per case]}; a window = [[enabled, held...], [task, bit...]...], last entry [[not done...]]"""
    d = os.path.join(vlib.scratch(), "depload-coq-%d" % time.time_ns())
    os.makedirs(d)
    src = ["From Coq Require Import List Arith.", "Import ListNotations.", "From Grog Require Import DepLoad.",
           "Definition A := TStart.", "Definition B := TRelease."]
    names = []
    for c0 in range(0, len(cases), 400):
        rows = ["(%d, %d, [%s])" % (cases[i][0], cases[i][1], "; ".join(model_tokens(cases[i][0], traces[i])))
                for i in range(c0, min(c0 + 400, len(cases)))]
        names.append("cs%d" % c0)
        src.append("Definition cs%d : list (nat * nat * list token) := [%s]." % (c0, ";\n ".join(rows)))
    src.append("Definition ev (v : variant) (asc : bool) (cs : list (nat * nat * list token)) :=\n"
               "  map (fun c => match c with (n, k, toks) => replay v asc n k toks end) cs.")
    keys = [("VCorrect", True), ("VCorrect", False), ("VFlagEarly", True), ("VRequestedOnce", True)]
    for v, asc in keys:
        for nm in names:
            src.append("Eval vm_compute in ev %s %s %s." % (v, "true" if asc else "false", nm))
    open(os.path.join(d, "cases.v"), "w").write("\n".join(src) + "\n")
    p = vlib.run(["coqc", "-Q", os.path.join(vlib.COQ, "theories"), "Grog", "cases.v"], cwd=d, timeout=900)
    if p.returncode != 0:
        raise RuntimeError("coqc rejects the generated cases file: " + p.stderr[-1500:])
    blocks = re.findall(r"=\s*(\[.*?\])\s*:\s*list \(list \(list \(list nat\)\)\)", p.stdout, re.S)
    if len(blocks) != len(keys) * len(names):
        raise RuntimeError("coqc printed %d results, expected %d" % (len(blocks), len(keys) * len(names)))
    res, bi = {}, 0
    for key in keys:
        acc = []
        for _ in names:
            acc += ast.literal_eval(blocks[bi].replace(";", ","))
            bi += 1
        res[key] = acc
    return res


# ------------------------------------------------------------------ comparison
def impl_windows(n, tr):
    """The implementation's trace in the model's window format + the reads that arrived per window."""
    ws, gets = [], []
    for w in tr["windows"]:
        cmds = []
        for e in w["events"]:
            if e.startswith("cmd:"):
                _, t, seen = e.split(":")
                cmds.append([int(t)] + [1 if ch == "c" else 0 for ch in (seen if seen != "-" else "")])
        ws.append([[0 if w["tok"] == "g:-" else 1] + sorted(w["held"])] + sorted(cmds))
        gets.append(sorted(int(e[4:]) for e in w["events"] if e.startswith("get:")))
    return ws, gets


def norm(model_ws):
    """model windows with the commands of a window sorted by task (their order inside a window is scheduling)"""
    return [[w[0][:1] + sorted(w[0][1:])] + sorted(w[1:]) for w in model_ws[:-1]], sorted(model_ws[-1][0])


def oracle(n, k, tr):
    """Model-free: what is wrong with this trace by itself (None = nothing)."""
    if "error" in tr:
        return "the harness could not run the case: %s" % tr["error"][:200]
    if tr["verdict"] == "hang":
        return "deadlock: dependants %s started, every goroutine is blocked, no blob read is held, their commands never ran" % tr["pending"]
    if tr["verdict"] != "ok":
        return "no quiescence (%s)" % tr["verdict"]
    ran = {}
    for wi, w in enumerate(tr["windows"]):
        for e in w["events"]:
            if e.startswith("err:"):
                return "LoadDependencyOutputs of dependant %s failed although the dependency is a readable cache hit" % e[4:]
            if e.startswith("cmd:"):
                _, t, seen = e.split(":")
                if t in ran:
                    return "the command of dependant %s ran twice" % t
                ran[t] = wi
                bad = [i for i, ch in enumerate(seen if seen != "-" else "") if ch != "c"]
                if bad:
                    what = {"s": "stale", "m": "missing"}
                    return ("the command of dependant %s ran (after token %d, %s) while output(s) %s of its dependency were %s%s" % (
                        t, wi + 1, w["tok"], bad, "/".join(sorted({what[seen[i]] for i in bad})),
                        ": blob read(s) %s still held at the gate" % w["held"] if w["held"] else ""))
    started = [int(w["tok"][1:]) for w in tr["windows"] if w["tok"].startswith("s") and w["events"] != ["refused"]]
    missing = [t for t in started if str(t) not in ran]
    if missing:
        return "dependants %s were started but their command never ran" % missing
    return None


def compare(n, k, tr, m_asc, m_desc, cap):
    """Is the implementation's trace one the model allows?  None, or the first difference."""
    iw, gets = impl_windows(n, tr)
    (a, a_nd), (b, b_nd) = norm(m_asc), norm(m_desc)
    started = {int(w["tok"][1:]) for w in tr["windows"] if w["tok"].startswith("s")}
    diffs = []
    for name, (mw, nd) in (("lowest task first", (a, a_nd)), ("highest task first", (b, b_nd))):
        diff = None
        prev_held = []
        for i, (x, y) in enumerate(zip(iw, mw)):
            xs, ys = (x, y) if cap >= n else ([x[0][:1]] + x[1:], [y[0][:1]] + y[1:])   # a smaller restore pool holds fewer reads at a time
            if xs != ys:
                diff = "window %d (%s): implementation %s, model %s  [format: [enabled, held reads...], [task, 1=current/0=stale per output]...]" % (
                    i + 1, tr["windows"][i]["tok"], x, y)
                break
            new = sorted(set(y[0][1:]) - set(prev_held))
            if cap >= n and gets[i] != new:
                diff = "window %d (%s): blob reads that reached the cache %s, the model starts the restores %s" % (i + 1, tr["windows"][i]["tok"], gets[i], new)
                break
            prev_held = y[0][1:]
        if diff is None and sorted(tr["pending"]) != [t for t in nd if t in started]:
            diff = "at the end: dependants %s have not run their command, model: %s" % (tr["pending"], [t for t in nd if t in started])
        if diff is None:
            return None
        diffs.append(diff)
    return diffs[0]


def explains(n, tr, mv):
    iw, _ = impl_windows(n, tr)
    return iw == norm(mv)[0]


HOW = ("schedule tokens: s<t> = dependant t is handed to a worker (Executor.LoadDependencyOutputs, then its command = a Go closure that "
       "reads the dependency's files); g / G = ONE blob read held at the cache backend's gate is released (lowest / highest output "
       "index); after every token the harness waits until every goroutine is blocked.  trace windows: <token>/<reads still held>/<events>, "
       "events: tget = target result read, get:<i> = read of blob i reached the cache, cmd:<t>:<c|s|m per output> = command of t ran and "
       "saw current|stale|missing.  init: s = workspace copy stale, m = missing.  Replay: ./check C15 --replay <this file>")


def record(case, tr, model, idx, name=None):
    n, k, sched, init = case
    return {"stage": "depload", "description": name or "generated schedule", "outputs_of_dependency": n, "dependants": k,
            "schedule": sched, "init": init or "s" * n,
            "trace": ";".join("%s/%s/%s" % (w["tok"], "+".join(map(str, w["held"])) or "-", ",".join(w["events"]) or "-") for w in tr.get("windows", [])) +
                     ";end/%s/%s" % ("+".join(map(str, tr.get("pending", []))) or "-", tr.get("verdict", tr.get("error"))),
            "model_windows": {"%s%s" % (v, "" if asc else " (highest task first)"): model[(v, asc)][idx] for (v, asc) in model} if model else None,
            "how": HOW}


def stage(out, tier, only=None):
    """only = a list of cases (replay); otherwise the fixed + exhaustive-small + random schedules of the tier."""
    t0 = time.time()
    try:
        binary = vlib.build_harness("depload")
    except vlib.HarnessUnavailable as e:
        out.notes.append("depload tie: harness unavailable (%s)" % str(e)[-600:])
        out.cov["depload"] = {"available": False}
        return None
    t_build = time.time() - t0
    named = [(n, k, s, "") for (_, n, k, s) in NAMED]
    names = {i: NAMED[i][0] for i in range(len(NAMED))}
    if only is not None:
        cases, names = list(only), {}
    else:
        r = vlib.Rng(vlib.seed() * 104729 + 1515)
        cases = named + small_schedules() + random_schedules(r, 60 if tier == "quick" else 2000)
    t1 = time.time()
    traces, cap = run_harness(binary, cases)
    t_impl = time.time() - t1
    t1 = time.time()
    ok_idx = [i for i, tr in enumerate(traces) if "error" not in tr]
    model = model_eval([cases[i] for i in ok_idx], [traces[i] for i in ok_idx]) if ok_idx else {}
    pos = {ci: j for j, ci in enumerate(ok_idx)}
    t_model = time.time() - t1
    bad_oracle, bad_model, nondet = [], [], 0
    stats = {"arrived_during_restore": 0, "blocked_on_lock": 0, "fast_path": 0, "recheck_under_lock": 0, "windows": 0, "commands": 0}
    for i, (case, tr) in enumerate(zip(cases, traces)):
        n, k = case[0], case[1]
        o = oracle(n, k, tr)
        if o is not None:
            bad_oracle.append((i, o))
        if i not in pos:
            continue
        j = pos[i]
        if model[("VCorrect", True)][j] != model[("VCorrect", False)][j] and norm(model[("VCorrect", True)][j]) != norm(model[("VCorrect", False)][j]):
            nondet += 1
        d = compare(n, k, tr, model[("VCorrect", True)][j], model[("VCorrect", False)][j], cap)
        if d is not None:
            why = [v for v in VARIANTS[1:] if explains(n, tr, model[(v, True)][j])]
            bad_model.append((i, d + ("; the trace is exactly what the model variant %s (a seeded order) does" % "/".join(why) if why else "")))
        prev_held = []
        for w in tr["windows"]:
            stats["windows"] += 1
            cm = [e for e in w["events"] if e.startswith("cmd:")]
            stats["commands"] += len(cm)
            if w["tok"].startswith("s"):
                if prev_held:
                    stats["arrived_during_restore"] += 1
                if "tget" in w["events"] and not cm and not any(e.startswith("get:") for e in w["events"]):
                    stats["blocked_on_lock"] += 1
                if "tget" not in w["events"] and cm:
                    stats["fast_path"] += 1
            elif len(cm) > 1:
                stats["recheck_under_lock"] += len(cm) - 1
            prev_held = w["held"]
    # named schedules first, then the shortest; at most two failing schedules of each kind are reported.  A schedule that fails
    # the model-free oracle also says how it differs from the model (and which seeded variant of the model behaves like that)
    key = lambda x: (x[0] not in names, cases[x[0]][2].count(",") + cases[x[0]][0] + cases[x[0]][1], x[0])
    diffs = dict(bad_model)
    for i, o in sorted(bad_oracle, key=key)[:2]:
        n, k, sched, init = cases[i]
        out.violation("concurrent dependency loading (stage depload, n=%d outputs, k=%d dependants, schedule %s): %s%s" % (
            n, k, sched, o, ("; against DepLoad.v: " + diffs[i]) if i in diffs else ""),
            record(cases[i], traces[i], model if i in pos else None, pos.get(i), names.get(i)))
    failed = {i for i, _ in bad_oracle}
    for i, d in [x for x in sorted(bad_model, key=key) if x[0] not in failed][:2]:
        n, k, sched, init = cases[i]
        out.violation("concurrent dependency loading (stage depload, n=%d outputs, k=%d dependants, schedule %s): the real code leaves the "
                      "traces DepLoad.v allows: %s" % (n, k, sched, d), record(cases[i], traces[i], model, pos[i], names.get(i)))
    out.cov["depload"] = {
        "available": True, "schedules": len(cases), "distinct_schedules": len({(c[0], c[1], c[2]) for c in cases}),
        "named": len(named) if only is None else 0, "exhaustive_small": "every interleaving of k<=%d starts with n<=%d releases" % (MAXK, MAXN),
        "oracle_failures": len(bad_oracle), "model_mismatches": len(bad_model), "model_schedule_dependent": nondet,
        "restore_pool_size": cap, **stats,
        "seconds": {"harness_build": round(t_build, 1), "implementation": round(t_impl, 1), "coqc": round(t_model, 1)},
        "rule": "per window: held blob reads, reads that arrived, commands run and what each saw, equal to DepLoad.replay (VCorrect) "
                "under both settle orders; model-free: every command saw every output current, no error, no hang",
        "samples": [record(cases[i], traces[i], None, None, names.get(i)) for i in range(min(3, len(cases)))]}
    return cases, traces, model


def replay(out, rp):
    case = (rp["outputs_of_dependency"], rp["dependants"], rp["schedule"], rp.get("init", ""))
    print("stage depload: %d outputs, %d dependants, schedule %s, workspace copies %s" % (case[0], case[1], case[2], case[3] or "all stale"))
    print("recorded trace : " + rp["trace"])
    res = stage(out, "quick", only=[case])
    if res is None:
        print("harness unavailable"); return
    cases, traces, model = res
    now = record(case, traces[0], model, 0 if model else None)
    print("trace now      : " + now["trace"])
    for kname, ws in (now["model_windows"] or {}).items():
        print("model %-36s: %s" % (kname, json.dumps(ws)))
    print(HOW)
