"""C15, stage `depload`: k dependants of ONE cache-hit dependency race on loading its outputs (load_outputs=minimal),
without and WITH a cache fault of either kind: the blobs of the outputs m..n-1 are lost (the restore fails), or the dependency's
target RESULT cannot be read when the dependants look it up (result_fails) -- in both cases the dependency has to be re-made by
ONE dependant, under the per-dependency lock.
Deterministic tie between coq/theories/DepLoad.v and the real Executor.LoadDependencyOutputs / Registry.LoadOutputs:
harness/go/depload runs a schedule (which dependant starts when, which held blob read is released when, when a run of the
dependency's command that waits at its gate goes on) on the real code, waiting for quiescence after every token; the
model's verdict for the same tokens is DepLoad.replay evaluated by coqc (vm_compute) on a generated cases file -- no
extraction, no OCaml driver.
Compared per window (= what happened between two tokens): the blob reads held at the gate, the reads that arrived, the
runs of the dependency's command waiting at their gate and started so far, the commands that ran and what each saw; at
the end the bytes the cache holds after a re-run.  Model-free oracle: every command saw every output current, the
dependency's command ran at most once (never two runs at the same time), no torn bytes cached, no error, no hang."""
import ast, itertools, json, os, re, threading, time
import vlib

MAXN, MAXK = 3, 3
VARIANTS = ("VCorrect", "VFlagEarly", "VRequestedOnce", "VNoOuterLock", "VLookupBeforeLock")
NAMED = [  # (name, n, k, schedule, lowest lost blob (n = none)[, 1 = the lookups of the dependency's target result fail])
    ("second dependant arrives while the first is inside the restore", 1, 2, "s0,s1,g", 1),
    ("second dependant arrives before the first has started", 1, 2, "s1,s0,g", 1),
    ("second dependant arrives after the restore", 1, 2, "s0,g,s1", 1),
    ("second dependant arrives between two restores", 2, 2, "s0,g,s1,g", 2),
    ("three dependants, two arrive during the restore", 2, 3, "s0,s1,s2,g,g", 2),
    ("three dependants, one during, one after", 2, 3, "s0,s1,g,g,s2", 2),
    ("no outputs", 0, 3, "s0,s1,s2", 0),
    ("three outputs released highest first", 3, 2, "s0,G,s1,G,G", 3),
    # cache fault while the dependency's outputs are being loaded (C15-F1): the dependency has to be re-made
    ("the only blob is lost, both dependants are started before the re-run is let go", 1, 2, "s0,s1,r", 0),
    ("the only blob is lost, the second dependant arrives after the re-run", 1, 2, "s0,r,s1", 0),
    ("blob 1 of 2 is lost, second dependant arrives during the restore of output 0", 2, 2, "s0,s1,g,r", 1),
    ("both blobs are lost, three dependants at once", 2, 3, "s0,s1,s2,r", 0),
    ("blob 2 of 3 is lost, dependants arrive one by one while the first restores and re-runs", 3, 3, "s0,G,s1,g,s2,r", 2),
    # the OTHER fault path of LoadDependencyOutputs: the dependency's target result cannot be read ("We cannot even get the target
    # cache: re-run immediately"); every dependant is started before the gate of the re-run is opened
    ("the result lookup fails, both dependants are started before the re-run is let go", 1, 2, "s0,s1,r", 1, 1),
    ("the result lookup fails, two outputs, both dependants are started before the re-run is let go", 2, 2, "s1,s0,r", 2, 1),
    ("the result lookup fails, three dependants are started before the re-run is let go", 1, 3, "s0,s1,s2,r", 1, 1),
    ("the result lookup fails, two outputs, three dependants are started before the re-run is let go", 2, 3, "s2,s0,s1,r", 2, 1),
    ("the result lookup fails, the second dependant arrives after the re-run", 1, 2, "s0,r,s1", 1, 1),
    ("the result lookup fails AND blob 1 of 2 is lost, both dependants are started before the re-run is let go", 2, 2, "s0,s1,r", 1, 1),
]


def small_schedules():
    """Every interleaving of the k starts (in every order) with n releases, n <= MAXN, k <= MAXK."""
    res = []
    for n in range(MAXN + 1):
        for k in range(1, MAXK + 1):
            for order in itertools.permutations(range(k)):
                for gpos in itertools.combinations(range(n + k), n):
                    toks, it = [], iter(order)
                    for i in range(n + k):
                        toks.append("g" if i in gpos else "s%d" % next(it))
                    res.append((n, k, ",".join(toks), "", n, 0))
    return res


def small_fault_schedules():
    """The blobs m..n-1 lost (n <= 2): every interleaving of the k <= 3 starts (in every order) with the m releases of the
    readable blobs and ONE `r` (the re-run is let go); m = 1 with k <= 2."""
    res = []
    for n, m, maxk in ((1, 0, 3), (2, 0, 3), (2, 1, 2)):
        for k in range(1, maxk + 1):
            for order in itertools.permutations(range(k)):
                for gpos in itertools.combinations(range(m + 1 + k), m + 1):
                    for rpos in gpos:
                        toks, it = [], iter(order)
                        for i in range(m + 1 + k):
                            toks.append(("r" if i == rpos else "g") if i in gpos else "s%d" % next(it))
                        res.append((n, k, ",".join(toks), "", m, 0))
    return res


def small_result_fault_schedules():
    """The lookups of the dependency's target result fail (n = 1, 2; no blob lost): every interleaving of the k <= 3 starts (in
    every order) with ONE `r` (the re-run is let go)."""
    res = []
    for n in (1, 2):
        for k in range(1, 4):
            for order in itertools.permutations(range(k)):
                for rpos in range(k + 1):
                    toks = ["s%d" % t for t in order]
                    toks.insert(rpos, "r")
                    res.append((n, k, ",".join(toks), "", n, 1))
    return res


def random_schedules(r, count):
    res = []
    for _ in range(count):
        n = r.choice([0, 1, 1, 2, 2, 3, 3, 3])
        k = r.choice([2, 2, 3, 3, 4, 5])
        started = r.sample(list(range(k)), k if r.chance(5, 6) else max(1, k - 1))
        toks = ["s%d" % t for t in started] + [r.choice(["g", "g", "G"]) for _ in range(r.below(n + 2))]
        lost = n
        if n > 0 and r.chance(2, 5):      # a cache fault: the blobs lost..n-1 are gone, some dependant has to re-make the dependency
            lost = r.below(n)
            toks += ["r"] * (1 + r.below(2))
        rf = 0
        if n > 0 and r.chance(2, 7):      # the other cache fault: the dependency's target result cannot be read by the dependants
            rf = 1
            toks += ["r"] * (1 + r.below(2))
        res.append((n, k, ",".join(r.shuffle(toks)), "".join(r.choice(["s", "m"]) for _ in range(n)), lost, rf))
    return res


# ------------------------------------------------------------------ implementation side
def parse_trace(line):
    """'trace\\t<w>;<w>;...;end/<pending>/<verdict>' -> dict(windows=[{tok, held, events}], pending, verdict)"""
    f = line.split("\t")
    if f[0] != "trace":
        return {"error": line}
    ws = f[1].split(";")
    end = ws.pop().split("/")
    windows = []
    for x in ws:
        tok, held, gate, evs = x.split("/")
        windows.append({"tok": tok, "held": [] if held == "-" else [int(i) for i in held.split("+")], "gate": int(gate),
                        "events": [] if evs == "-" else evs.split(",")})
    return {"windows": windows, "pending": [] if end[1] == "-" else [int(i) for i in end[1].split("+")], "verdict": end[2],
            "cached": end[3] if len(end) > 3 else "-"}


def run_harness(binary, cases, jobs=4):
    """cases: [(n, k, schedule, init, lowest lost blob, result_fails)] -> parsed traces, same order; `jobs` harness processes side by side."""
    chunks = [cases[i::jobs] for i in range(jobs)] if len(cases) >= 4 * jobs else [cases]
    outs, errs = [None] * len(chunks), []

    def work(i):
        d = os.path.join(vlib.scratch(), "depload-%d" % i)
        os.makedirs(d, exist_ok=True)
        try:
            rc, lines, err = vlib.run_lines(binary, ["case\t%d\t%d\t%s\t%s\t%d\t%d" % c for c in chunks[i]] + ["caps"], timeout=1500, args=(d,))
            if rc != 0 or len(lines) != len(chunks[i]) + 1:
                errs.append("harness exit %s, %d answers for %d cases: %s" % (rc, len(lines), len(chunks[i]), err[-800:]))
            outs[i] = lines
        except Exception as e:  # noqa
            errs.append("%s: %s" % (type(e).__name__, e))
    ths = [threading.Thread(target=work, args=(i,)) for i in range(len(chunks))]
    [t.start() for t in ths]
    [t.join() for t in ths]
    if errs:
        raise RuntimeError("depload harness: " + "; ".join(errs)[:1500])
    res, cap = [None] * len(cases), None
    for i, lines in enumerate(outs):
        cap = int(lines[-1].split("\t")[1])
        for j, line in enumerate(lines[:-1]):
            res[i + j * len(chunks)] = parse_trace(line)
    return res, cap


# ------------------------------------------------------------------ model side (coqc + vm_compute)
def model_tokens(n, tr):
    """The model's token list for an implementation trace: which read was released is taken from the trace."""
    toks = []
    for w in tr["windows"]:
        t = w["tok"]
        if t.startswith("s"):
            toks.append("A %d" % int(t[1:]))
        elif t.startswith("r"):
            toks.append("C")               # r:- (no run was waiting) is not enabled in the model either, or it is a difference
        elif t == "g:-":
            toks.append("B %d" % n)        # nothing held: an index that is never enabled
        else:
            toks.append("B %d" % int(t[2:]))
    return toks


def model_eval(cases, traces):
    """-> {(variant, asc): [windows per case]}; a window = [[enabled, runs at gate, runs so far], [held...], [task, 1|0|2 per output]...],
    last entry [[not done...], [task, 1|0|2 per output cached by its re-run]...]"""
    d = os.path.join(vlib.scratch(), "depload-coq-%d" % time.time_ns())
    os.makedirs(d)
    src = ["From Coq Require Import List Arith.", "Import ListNotations.", "From Grog Require Import DepLoad.",
           "Definition A := TStart.", "Definition B := TRelease.", "Definition C := TGo."]
    names = []
    for c0 in range(0, len(cases), 400):
        rows = ["(%d, %d, %d, %s, [%s])" % (cases[i][0], cases[i][1], cases[i][4], "true" if cases[i][5] else "false",
                                            "; ".join(model_tokens(cases[i][0], traces[i])))
                for i in range(c0, min(c0 + 400, len(cases)))]
        names.append("cs%d" % c0)
        src.append("Definition cs%d : list (nat * nat * nat * bool * list token) := [%s]." % (c0, ";\n ".join(rows)))
    src.append("Definition ev (v : variant) (asc : bool) (cs : list (nat * nat * nat * bool * list token)) :=\n"
               "  map (fun c => match c with (n, k, m, rf, toks) => replay v asc n k m rf toks end) cs.")
    keys = [("VCorrect", True), ("VCorrect", False), ("VFlagEarly", True), ("VRequestedOnce", True), ("VNoOuterLock", True),
            ("VLookupBeforeLock", True)]
    for v, asc in keys:
        for nm in names:
            src.append("Eval vm_compute in ev %s %s %s." % (v, "true" if asc else "false", nm))
    open(os.path.join(d, "cases.v"), "w").write("\n".join(src) + "\n")
    p = vlib.run(["coqc", "-Q", os.path.join(vlib.COQ, "theories"), "Grog", "cases.v"], cwd=d, timeout=900)
    if p.returncode != 0:
        raise RuntimeError("coqc rejects the generated cases file: " + p.stderr[-1500:])
    blocks = re.findall(r"=\s*(\[.*?\])\s*:\s*list \(list \(list \(list nat\)\)\)", p.stdout, re.S)
    if len(blocks) != len(keys) * len(names):
        raise RuntimeError("coqc printed %d results, expected %d" % (len(blocks), len(keys) * len(names)))
    res, bi = {}, 0
    for key in keys:
        acc = []
        for _ in names:
            acc += ast.literal_eval(blocks[bi].replace(";", ","))
            bi += 1
        res[key] = acc
    return res


# ------------------------------------------------------------------ comparison
RERUN_CLASS, RERUN_MARK = "concurrent-dependency-rerun", "the dependency's command was started"
SEEN = {"c": 1, "s": 0, "m": 0, "t": 2}      # what a reader found: current | stale or missing (= not current) | torn


def impl_windows(n, tr):
    """The implementation's trace in the model's window format + the reads that arrived per window."""
    ws, gets, runs = [], [], 0
    for w in tr["windows"]:
        cmds = []
        for e in w["events"]:
            if e.startswith("cmd:"):
                _, t, seen = e.split(":")
                cmds.append([int(t)] + [SEEN[ch] for ch in (seen if seen != "-" else "")])
        runs += w["events"].count("run")
        ws.append([[0 if w["tok"] in ("g:-", "r:-") else 1, w["gate"], runs], sorted(w["held"])] + sorted(cmds))
        gets.append(sorted(int(e[4:]) for e in w["events"] if e.startswith("get:")))
    return ws, gets


def norm(model_ws):
    """model windows with the commands of a window sorted by task (their order inside a window is scheduling);
    -> (windows, tasks not done at the end, what the re-runs cached)"""
    return [[w[0], sorted(w[1])] + sorted(w[2:]) for w in model_ws[:-1]], sorted(model_ws[-1][0]), model_ws[-1][1:]


def oracle(n, k, tr):
    """Model-free: what is wrong with this trace by itself (None = nothing)."""
    if "error" in tr:
        return "the harness could not run the case: %s" % tr["error"][:200]
    if tr["verdict"] == "hang":
        return "deadlock: dependants %s started, every goroutine is blocked, no blob read is held, their commands never ran" % tr["pending"]
    if tr["verdict"] != "ok":
        return "no quiescence (%s)" % tr["verdict"]
    ran, runs = {}, 0
    for wi, w in enumerate(tr["windows"]):
        runs += w["events"].count("run")
        if w["gate"] > 1 or runs > 1:
            return ("the dependency's command was started %d times in one build%s (after token %d, %s): each dependant that finds the "
                    "dependency unrestorable re-makes it, in the same package directory" % (
                        runs, ", %d runs of it are under way at the same time" % w["gate"] if w["gate"] > 1 else "", wi + 1, w["tok"]))
        for e in w["events"]:
            if e.startswith("err:"):
                return "LoadDependencyOutputs of dependant %s failed although the dependency can be restored or re-made" % e[4:]
            if e.startswith("cmd:"):
                _, t, seen = e.split(":")
                if t in ran:
                    return "the command of dependant %s ran twice" % t
                ran[t] = wi
                bad = [i for i, ch in enumerate(seen if seen != "-" else "") if ch != "c"]
                if bad:
                    what = {"s": "stale", "m": "missing", "t": "torn (half written by a run of the dependency's command)"}
                    return ("the command of dependant %s ran (after token %d, %s) while output(s) %s of its dependency were %s%s" % (
                        t, wi + 1, w["tok"], bad, "/".join(sorted({what[seen[i]] for i in bad})),
                        ": blob read(s) %s still held at the gate" % w["held"] if w["held"] else ""))
    started = [int(w["tok"][1:]) for w in tr["windows"] if w["tok"].startswith("s") and w["events"] != ["refused"]]
    missing = [t for t in started if str(t) not in ran]
    if missing:
        return "dependants %s were started but their command never ran" % missing
    if tr.get("cached", "-") != "-" and set(tr["cached"]) != {"c"}:
        return "after the re-run the cache holds bytes of the dependency that are not its current outputs (%s per output; t = torn)" % tr["cached"]
    return None


def compare(n, k, tr, m_asc, m_desc, cap):
    """Is the implementation's trace one the model allows?  None, or the first difference."""
    iw, gets = impl_windows(n, tr)
    started = {int(w["tok"][1:]) for w in tr["windows"] if w["tok"].startswith("s")}
    cached = [] if tr.get("cached", "-") == "-" else [SEEN[ch] for ch in tr["cached"]]
    diffs = []
    for name, (mw, nd, wrote) in (("lowest task first", norm(m_asc)), ("highest task first", norm(m_desc))):
        diff = None
        prev_held = []
        for i, (x, y) in enumerate(zip(iw, mw)):
            xs, ys = (x, y) if cap >= n else ([x[0]] + x[2:], [y[0]] + y[2:])   # a smaller restore pool holds fewer reads at a time
            if xs != ys:
                diff = ("window %d (%s): implementation %s, model %s  [format: [enabled, runs of the dependency's command at their gate, runs so far], "
                        "[held reads...], [task, 1=current/0=stale/2=torn per output]...]" % (i + 1, tr["windows"][i]["tok"], x, y))
                break
            new = sorted(set(y[1]) - set(prev_held))
            if cap >= n and gets[i] != new:
                diff = "window %d (%s): blob reads that reached the cache %s, the model starts the restores %s" % (i + 1, tr["windows"][i]["tok"], gets[i], new)
                break
            prev_held = y[1]
        if diff is None and sorted(tr["pending"]) != [t for t in nd if t in started]:
            diff = "at the end: dependants %s have not run their command, model: %s" % (tr["pending"], [t for t in nd if t in started])
        if diff is None and cached != (wrote[-1][1:] if wrote else []):
            diff = "at the end: the cache holds %s for the dependency's outputs after the re-run, model: %s (1=current/0=stale/2=torn)" % (
                cached, wrote[-1][1:] if wrote else "no re-run")
        if diff is None:
            return None
        diffs.append(diff)
    return diffs[0]


def explains(n, tr, mv):
    iw, _ = impl_windows(n, tr)
    return iw == norm(mv)[0]


HOW = ("schedule tokens: s<t> = dependant t is handed to a worker (Executor.LoadDependencyOutputs, then its command = a Go closure that "
       "reads the dependency's files); g / G = ONE blob read held at the cache backend's gate is released (lowest / highest output "
       "index); r = the oldest run of the dependency's own command (a real shell command: half-writes every output, waits at a FIFO, "
       "writes every output completely) that waits at its gate goes on; after every token the harness waits until every goroutine is "
       "blocked and every such run sits at its gate.  lost_blobs_from = m: the blobs of the outputs m..n-1 are deleted from the cache, a "
       "dependant has to re-make the dependency.  result_fails = 1: every read of the dependency's target RESULT fails while the schedule "
       "runs (event tfail), a dependant that cannot read it re-runs the dependency at once.  trace windows: <token>/<reads still held>/<runs at their gate>/<events>, events: tget = "
       "target result read, get:<i> = read of blob i reached the cache, lost:<i> = read of the lost blob i failed, run / ran = a run of "
       "the dependency's command started / ended, cmd:<t>:<c|s|m|t per output> = command of t ran and saw current|stale|missing|torn; "
       "end/<pending>/<verdict>/<bytes cached after a re-run>.  init: s = workspace copy stale, m = missing.  "
       "Replay: ./check C15 --replay <this file>")


def record(case, tr, model, idx, name=None):
    n, k, sched, init, lost, rf = case
    return {"stage": "depload", "description": name or "generated schedule", "outputs_of_dependency": n, "dependants": k,
            "schedule": sched, "init": init or "s" * n, "lost_blobs_from": lost, "result_fails": rf,
            "trace": ";".join("%s/%s/%d/%s" % (w["tok"], "+".join(map(str, w["held"])) or "-", w["gate"], ",".join(w["events"]) or "-")
                              for w in tr.get("windows", [])) +
                     ";end/%s/%s/%s" % ("+".join(map(str, tr.get("pending", []))) or "-", tr.get("verdict", tr.get("error")), tr.get("cached", "-")),
            "model_windows": {"%s%s" % (v, "" if asc else " (highest task first)"): model[(v, asc)][idx] for (v, asc) in model} if model else None,
            "how": HOW}


def faults(n, lost, rf):
    return (", blobs %s lost" % list(range(lost, n)) if lost < n else "") + (", every lookup of the dependency's target result fails" if rf else "")


def stage(out, tier, only=None):
    """only = a list of cases (replay); otherwise the fixed + exhaustive-small + random schedules of the tier."""
    t0 = time.time()
    try:
        binary = vlib.build_harness("depload")
    except vlib.HarnessUnavailable as e:
        out.notes.append("depload tie: harness unavailable (%s)" % str(e)[-600:])
        out.cov["depload"] = {"available": False}
        return None
    t_build = time.time() - t0
    named = [(x[1], x[2], x[3], "", x[4], x[5] if len(x) > 5 else 0) for x in NAMED]
    names = {i: NAMED[i][0] for i in range(len(NAMED))}
    if only is not None:
        cases, names = list(only), {}
    else:
        r = vlib.Rng(vlib.seed() * 104729 + 1515)
        cases = (named + small_schedules() + small_fault_schedules() + small_result_fault_schedules() +
                 random_schedules(r, 60 if tier == "quick" else 2000))
    t1 = time.time()
    traces, cap = run_harness(binary, cases)
    # "stuck" = the harness saw no quiescence within its timeout: on a loaded machine a shell that is slow to reach its gate looks
    # like that, and the cases after it in the same harness process start from a dirty state.  Such a case, and every case of
    # its process after it, is run again ONE AT A TIME in a fresh process (twice if need be); what is still stuck then counts.
    retried = 0
    for attempt in range(2):
        jobs = 4 if len(cases) >= 16 else 1
        first = {}
        for i, tr in enumerate(traces):
            if "error" not in tr and str(tr.get("verdict", "")).startswith("stuck"):
                first.setdefault(i % jobs, i)
        again = sorted(i for c, i0 in first.items() for i in range(i0, len(cases), jobs))
        if not again:
            break
        retried += len(again)
        for i in again:
            tr2, _ = run_harness(binary, [cases[i]])
            traces[i] = tr2[0]
    t_impl = time.time() - t1
    t1 = time.time()
    ok_idx = [i for i, tr in enumerate(traces) if "error" not in tr]
    model = model_eval([cases[i] for i in ok_idx], [traces[i] for i in ok_idx]) if ok_idx else {}
    pos = {ci: j for j, ci in enumerate(ok_idx)}
    t_model = time.time() - t1
    bad_oracle, bad_model, nondet = [], [], 0
    stats = {"arrived_during_restore": 0, "arrived_during_rerun": 0, "blocked_on_lock": 0, "fast_path": 0, "flag_seen_after_waiting": 0,
             "fault_schedules": 0, "result_fault_schedules": 0, "result_lookups_failed": 0, "reruns": 0, "windows": 0, "commands": 0}
    for i, (case, tr) in enumerate(zip(cases, traces)):
        n, k = case[0], case[1]
        o = oracle(n, k, tr)
        if o is not None:
            bad_oracle.append((i, o))
        if i not in pos:
            continue
        j = pos[i]
        if model[("VCorrect", True)][j] != model[("VCorrect", False)][j] and norm(model[("VCorrect", True)][j]) != norm(model[("VCorrect", False)][j]):
            nondet += 1
        d = compare(n, k, tr, model[("VCorrect", True)][j], model[("VCorrect", False)][j], cap)
        if d is not None:
            why = [v for v in VARIANTS[1:] if explains(n, tr, model[(v, True)][j])]
            bad_model.append((i, d + ("; the trace is exactly what the model variant %s (a seeded order / the order before the repair of C15-F1) does" % "/".join(why) if why else "")))
        prev_held, prev_gate = [], 0
        stats["fault_schedules"] += 1 if case[4] < n else 0
        stats["result_fault_schedules"] += 1 if case[5] else 0
        for w in tr["windows"]:
            stats["windows"] += 1
            cm = [e for e in w["events"] if e.startswith("cmd:")]
            stats["commands"] += len(cm)
            stats["reruns"] += w["events"].count("run")
            stats["result_lookups_failed"] += w["events"].count("tfail")
            if w["tok"].startswith("s"):
                if prev_held:
                    stats["arrived_during_restore"] += 1
                if prev_gate:
                    stats["arrived_during_rerun"] += 1
                if (prev_held or prev_gate) and not cm:
                    stats["blocked_on_lock"] += 1      # waits for the per-dependency lock (before the repair: for the registry's)
                if "tget" not in w["events"] and "tfail" not in w["events"] and cm:
                    stats["fast_path"] += 1
            elif len(cm) > 1:
                stats["flag_seen_after_waiting"] += len(cm) - 1
            prev_held, prev_gate = w["held"], w["gate"]
    # named schedules first, then the shortest; at most two failing schedules of each kind are reported.  A schedule that fails
    # the model-free oracle also says how it differs from the model (and which seeded variant of the model behaves like that)
    key = lambda x: (x[0] not in names, cases[x[0]][2].count(",") + cases[x[0]][0] + cases[x[0]][1], x[0])
    diffs = dict(bad_model)
    # a finding listed in known_findings.txt (class concurrent-dependency-rerun, C15-F1 before its repair): the schedules in which the
    # dependency's command is started more than once are reported as that finding
    listed = {f["class"]: f for f in vlib.known_findings("C15")}.get(RERUN_CLASS)
    reported = 0
    for i, o in sorted(bad_oracle, key=key):
        n, k, sched, init, lost, rf = cases[i]
        what = "concurrent dependency loading (stage depload, n=%d outputs, k=%d dependants%s, schedule %s): %s%s" % (
            n, k, faults(n, lost, rf), sched, o, ("; against DepLoad.v: " + diffs[i]) if i in diffs else "")
        if listed and o.startswith(RERUN_MARK):
            out.known(listed["id"], what)
        elif reported < 2:
            reported += 1
            out.violation(what, record(cases[i], traces[i], model if i in pos else None, pos.get(i), names.get(i)))
    failed = {i for i, _ in bad_oracle}
    for i, d in [x for x in sorted(bad_model, key=key) if x[0] not in failed][:2]:
        n, k, sched, init, lost, rf = cases[i]
        out.violation("concurrent dependency loading (stage depload, n=%d outputs, k=%d dependants%s, schedule %s): the real code leaves the "
                      "traces DepLoad.v allows: %s" % (n, k, faults(n, lost, rf), sched, d),
                      record(cases[i], traces[i], model, pos[i], names.get(i)))
    out.cov["depload"] = {
        "available": True, "schedules": len(cases), "distinct_schedules": len({(c[0], c[1], c[2], c[4], c[5]) for c in cases}),
        "named": len(named) if only is None else 0, "exhaustive_small": "every interleaving of k<=%d starts with n<=%d releases; with the "
        "blobs m..n-1 lost (n<=2): every interleaving of k<=3 starts, the m releases and one go of the re-run; with the lookups of the "
        "dependency's target result failing (n<=2): every interleaving of k<=3 starts and one go of the re-run" % (MAXK, MAXN),
        "oracle_failures": len(bad_oracle), "model_mismatches": len(bad_model), "model_schedule_dependent": nondet,
        "restore_pool_size": cap, "stuck_cases_run_again_alone": retried, **stats,
        "seconds": {"harness_build": round(t_build, 1), "implementation": round(t_impl, 1), "coqc": round(t_model, 1)},
        "rule": "per window: held blob reads, reads that arrived, runs of the dependency's command at their gate and started so far, commands "
                "run and what each saw, at the end the bytes cached by a re-run, equal to DepLoad.replay (VCorrect) under both settle orders; "
                "model-free: every command saw every output current, the dependency's command started at most once, no torn bytes cached, "
                "no error, no hang",
        "samples": [record(cases[i], traces[i], None, None, names.get(i)) for i in range(min(3, len(cases)))]}
    return cases, traces, model


def replay(out, rp):
    case = (rp["outputs_of_dependency"], rp["dependants"], rp["schedule"], rp.get("init", ""), rp.get("lost_blobs_from", rp["outputs_of_dependency"]),
            1 if rp.get("result_fails") else 0)
    print("stage depload: %d outputs, %d dependants, schedule %s, workspace copies %s, lost blobs %s, lookups of the dependency's target result %s" % (
        case[0], case[1], case[2], case[3] or "all stale", list(range(case[4], case[0])) or "none", "FAIL" if case[5] else "succeed"))
    print("recorded trace : " + rp["trace"])
    res = stage(out, "quick", only=[case])
    if res is None:
        print("harness unavailable"); return
    cases, traces, model = res
    now = record(case, traces[0], model, 0 if model else None)
    print("trace now      : " + now["trace"])
    for kname, ws in (now["model_windows"] or {}).items():
        print("model %-36s: %s" % (kname, json.dumps(ws)))
    print(HOW)
