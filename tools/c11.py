"""C11 -- invalid build graphs are rejected before anything runs; valid ones accepted.

Three independent parties look at every generated graph:
  * the IMPLEMENTATION: real model.BuildNodeMapFromPackages / analysis.BuildGraph /
    analysis.CheckTargetConstraints through harness/go/analysis (in-process tie), and the real
    binary (`grog check`, `grog build`) on rendered BUILD.json workspaces (CLI tie);
  * the MODEL: Analysis.validate extracted from Coq (ocaml/analysis/driver.ml) -- correspondence;
  * the ORACLE: `reference()` below, a validator written from the property text only (semantic
    path resolution on components, reachability by BFS); it never looks at the model.
The property holds on an input when  implementation accepts  <=>  reference says defect free.
A disagreement whose cause -- evaluated on the input -- is a class listed in known_findings.txt is
printed as KNOWN-FINDING, anything else is a VIOLATION with a replay file."""
import itertools, json, os, posixpath
from concurrent.futures import ThreadPoolExecutor
import vlib
from vlib import hx

ROOT = "/w/ws"                      # workspace root of the in-process tie (config.Global.WorkspaceRoot)
DANGLING = ("p1", "zz")

# output spellings: (type letter, identifier); f file, d dir, k docker
SPELL = [("f", "a"), ("f", "./a"), ("f", "b/../a"), ("f", "a/b"), ("f", "a/"), ("f", "../p2/a"), ("f", "../p1/a"),
         ("f", "../../x"), ("f", "/abs"), ("f", "../../ws/p1/a"), ("f", "dist/app"), ("f", "dist2/app"),
         ("d", "a"), ("d", "a/b"), ("d", "a/"), ("d", "dist"), ("d", "dist2"), ("d", "."), ("d", ".."),
         ("d", "../.."), ("d", "../../outside"), ("d", "../p2"), ("d", "/abs"), ("d", ""),
         ("k", "img"), ("k", "img2")]
BINS = ["", "", "x", "dist/app", "../../x"]
INPUTS = ["x", "./x", "a/../b", "a/../../b", "../x", "..", "/abs", "a/..", "../p1/x", "...", "a//b", ""]


# ------------------------------------------------------------------ graphs
def T(pkg, name, deps=(), ins=(), outs=(), bin="", tags=(), nocmd=False):
    return {"k": "T", "pkg": pkg, "name": name, "deps": [tuple(d) for d in deps], "ins": list(ins),
            "outs": [tuple(o) for o in outs], "bin": bin, "tags": list(tags), "nocmd": bool(nocmd)}


def A(pkg, name, actual):
    return {"k": "A", "pkg": pkg, "name": name, "actual": tuple(actual)}


def norm(g):
    """A graph read back from JSON (corpus, replay files): lists -> tuples."""
    r = []
    for n in g:
        if n["k"] == "A":
            r.append(A(n["pkg"], n["name"], n["actual"]))
        else:
            r.append(T(n["pkg"], n["name"], n["deps"], n["ins"], n["outs"], n["bin"], n["tags"], n["nocmd"]))
    return r


def lab(n):
    return (n["pkg"], n["name"])


def ndeps(n):
    return n["deps"] if n["k"] == "T" else [n["actual"]]


def all_outs(t):
    return t["outs"] + ([("f", t["bin"])] if t["bin"] else [])


def wire_node(n):
    if n["k"] == "A":
        return "|".join(["A", hx(n["pkg"]), hx(n["name"]), hx(n["actual"][0]), hx(n["actual"][1])])
    return "|".join(["T", hx(n["pkg"]), hx(n["name"]),
                     ",".join("%s:%s" % (hx(p), hx(m)) for p, m in n["deps"]),
                     ",".join(hx(i) for i in n["ins"]),
                     ",".join("%s:%s" % (t, hx(i)) for t, i in n["outs"]),
                     hx(n["bin"]), ",".join(hx(t) for t in n["tags"]), "1" if n["nocmd"] else "0"])


def wire(g, root=ROOT):
    return "\t".join(["graph", hx(root)] + [wire_node(n) for n in g])


def show(g):
    def one(n):
        if n["k"] == "A":
            return "alias //%s:%s -> //%s:%s" % (n["pkg"], n["name"], n["actual"][0], n["actual"][1])
        s = "//%s:%s" % (n["pkg"], n["name"])
        if n["deps"]:
            s += " deps=" + ",".join("//%s:%s" % d for d in n["deps"])
        if n["ins"]:
            s += " inputs=" + ",".join(n["ins"])
        o = [{"f": "", "d": "dir::", "k": "docker::"}[t] + i for t, i in n["outs"]]
        if o:
            s += " outputs=" + ",".join(o)
        if n["bin"]:
            s += " bin_output=" + n["bin"]
        if n["tags"]:
            s += " tags=" + ",".join(n["tags"])
        if n["nocmd"]:
            s += " (no command)"
        return s
    return "; ".join(one(n) for n in g)


# ------------------------------------------------------------------ the oracle: reference validator
def walk_abs(cs):
    """Location reached from "/" by the elements cs ("" and "." stay, ".." goes up, "/.." = "/")."""
    st = []
    for c in cs:
        if c in ("", "."):
            continue
        if c == "..":
            if st:
                st.pop()
        else:
            st.append(c)
    return st


def walk_rel(cs):
    """Elements below an unnamed starting directory, or None when the walk leaves it."""
    st = []
    for c in cs:
        if c in ("", "."):
            continue
        if c == "..":
            if not st:
                return None
            st.pop()
        else:
            st.append(c)
    return st


def location(rootc, pkg, ident):
    loc = walk_abs(rootc + pkg.split("/") + ident.split("/"))
    if not ident.startswith("/") and "\\" not in ident:       # independent cross-check of the walker
        want = posixpath.normpath("/" + "/".join(rootc + [pkg, ident]))
        assert "/" + "/".join(loc) == want or (loc == [] and want == "/"), (rootc, pkg, ident, loc, want)
    return loc


def is_prefix(a, b):
    return b[:len(a)] == a


def overlap(p, q):
    (k1, l1), (k2, l2) = p, q
    if k1 == "k" or k2 == "k":
        return k1 == k2 and l1 == l2
    if k1 == "f" and k2 == "f":
        return l1 == l2
    if k1 == "d" and k2 == "d":
        return is_prefix(l1, l2) or is_prefix(l2, l1)
    d, f = (l1, l2) if k1 == "d" else (l2, l1)
    return is_prefix(d, f)


def place(rootc, t, o):
    return (o[0], o[1]) if o[0] == "k" else (o[0], location(rootc, t["pkg"], o[1]))


def is_test(n):
    return n["name"].endswith("test")


def reference(rootc, g):
    """Defects of g according to the property text: list of (class, detail dict)."""
    D = []
    labels = [lab(n) for n in g]
    if len(set(labels)) != len(labels):
        D.append(("dup", {}))
    nm = {}
    for n in g:
        nm.setdefault(lab(n), n)
    for n in g:
        for d in ndeps(n):
            if d not in nm:
                D.append(("missing", {"node": lab(n), "dep": d}))
    anc = {}
    for l in nm:                       # transitive dependencies by BFS
        seen, todo = set(), [d for d in ndeps(nm[l]) if d in nm]
        while todo:
            x = todo.pop()
            if x in seen:
                continue
            seen.add(x)
            todo += [d for d in ndeps(nm[x]) if d in nm]
        anc[l] = seen
    for l in nm:
        if l in anc[l]:
            D.append(("cycle", {"node": l}))
    ts = [n for n in nm.values() if n["k"] == "T"]
    for i in range(len(ts)):
        for j in range(i + 1, len(ts)):
            t1, t2 = ts[i], ts[j]
            if lab(t1) in anc[lab(t2)] or lab(t2) in anc[lab(t1)]:
                continue
            for o1 in all_outs(t1):
                for o2 in all_outs(t2):
                    if overlap(place(rootc, t1, o1), place(rootc, t2, o2)):
                        D.append(("conflict", {"t1": lab(t1), "o1": o1, "t2": lab(t2), "o2": o2}))
    for t in ts:
        for i in t["ins"]:
            if i.startswith("/") or walk_rel(i.split("/")) is None:
                D.append(("input-path", {"target": lab(t), "input": i}))
        for o in all_outs(t):
            if o[0] != "k" and (o[1].startswith("/") or not is_prefix(rootc, location(rootc, t["pkg"], o[1]))):
                D.append(("output-path", {"target": lab(t), "output": o}))
        if is_test(t) and t["nocmd"]:
            D.append(("test-no-command", {"target": lab(t)}))
        for d in t["deps"]:
            seen, cur = set(), d
            while cur in nm and nm[cur]["k"] == "A" and cur not in seen:
                seen.add(cur)
                cur = nm[cur]["actual"]
            dt = nm.get(cur)
            if dt is None or dt["k"] != "T":
                continue
            if is_test(dt) and not is_test(t):
                D.append(("deprule", {"target": lab(t), "dep": lab(dt), "why": "test"}))
            elif "testonly" in dt["tags"] and not is_test(t) and "testonly" not in t["tags"]:
                D.append(("deprule", {"target": lab(t), "dep": lab(dt), "why": "testonly"}))
    return D


# guards of the known-finding classes, evaluated on the input
def lexical(t, o):
    """<pkg>/<id> read from the workspace root without knowing the root's own name."""
    return walk_rel(t_pkg_comps(t) + o[1].split("/"))


def t_pkg_comps(t):
    return t.split("/") if isinstance(t, str) else t["pkg"].split("/")


def defect_class(g, d):
    """The known-finding class a defect MISSED by the implementation falls into, or None."""
    kind, info = d
    if kind == "output-path" and info["output"][0] == "d":
        return "dir-output-escape"
    if kind == "conflict":
        l1 = walk_rel(info["t1"][0].split("/") + info["o1"][1].split("/")) if info["o1"][0] != "k" else ["tag"]
        l2 = walk_rel(info["t2"][0].split("/") + info["o2"][1].split("/")) if info["o2"][0] != "k" else ["tag"]
        if l1 is None or l2 is None:
            return "lexical-escape-overlap"
        if (l1 == [] and info["o1"][0] == "d") or (l2 == [] and info["o2"][0] == "d"):
            return "root-dir-output"
    return None


def same_target_overlap(rootc, g):
    for t in g:
        if t["k"] != "T":
            continue
        outs = all_outs(t)
        for i in range(len(outs)):
            for j in range(i + 1, len(outs)):
                if overlap(place(rootc, t, outs[i]), place(rootc, t, outs[j])):
                    return (lab(t), outs[i], outs[j])
    return None


# ------------------------------------------------------------------ generators
KINDS = ["target", "test", "testonly", "alias"]
BASE = [("p1", "a"), ("p1", "b"), ("p2", "c")]


def mk_node(kind, pkg, name, deps, **kw):
    if kind == "alias":
        return A(pkg, name, deps[0] if deps else DANGLING)
    if kind == "test":
        return T(pkg, name + "test", deps, **kw)
    if kind == "testonly":
        return T(pkg, name, deps, tags=["testonly"], **kw)
    return T(pkg, name, deps, **kw)


def label_for(kind, base):
    return (base[0], base[1] + ("test" if kind == "test" else ""))


def structure_stream():
    """S1: every graph of 1..3 nodes over the four kinds and ALL dependency subsets of
    {the graph's own labels, one dangling label} (alias: every choice of `actual`), no outputs."""
    for n in (1, 2, 3):
        for kinds in itertools.product(KINDS, repeat=n):
            labels = [label_for(k, BASE[i]) for i, k in enumerate(kinds)]
            univ = labels + [DANGLING]
            choices = []
            for k in kinds:
                if k == "alias":
                    choices.append([[u] for u in univ])
                else:
                    choices.append([[u for b, u in zip(bits, univ) if b] for bits in itertools.product((0, 1), repeat=len(univ))])
            for deps in itertools.product(*choices):
                yield [mk_node(k, BASE[i][0], BASE[i][1], d) for i, (k, d) in enumerate(zip(kinds, deps))]


def spelling_stream():
    """S2: two targets with one output spelling each x package placement x dependency relation
    (none, direct both ways, through an alias); one target with two spellings (+ bin output);
    every input spelling; duplicate labels; tests without a command."""
    for (pa, pb) in (("p1", "p1"), ("p1", "p2")):
        for o1 in SPELL:
            for o2 in SPELL:
                for rel in ("none", "b->a", "a->b", "b->alias->a"):
                    a = T(pa, "a", outs=[o1])
                    b = T(pb, "b", outs=[o2])
                    g = [a, b]
                    if rel == "b->a":
                        b["deps"] = [lab(a)]
                    elif rel == "a->b":
                        a["deps"] = [lab(b)]
                    elif rel == "b->alias->a":
                        g.append(A("p2", "al", lab(a)))
                        b["deps"] = [("p2", "al")]
                    yield g
    for o1 in SPELL:
        for o2 in SPELL:
            yield [T("p1", "a", outs=[o1, o2])]
        for bn in ("a", "dist/app", "a/b", "../../x", "/abs", "x"):
            yield [T("p1", "a", outs=[o1], bin=bn)]
            yield [T("p1", "a", outs=[o1]), T("p1", "b", bin=bn)]
    for pkg in ("p1", "p2", "p1/q"):
        for i in INPUTS:
            yield [T(pkg, "a", ins=[i])]
            yield [T(pkg, "a", ins=["x", i, "y"])]
    for k1 in KINDS:
        for k2 in KINDS:
            yield [mk_node(k1, "p1", "a", []), mk_node(k2, "p1", "a", [("p1", "a")] if k2 == "alias" else [])]
            yield [mk_node(k1, "p1", "a", [("p1", "o")]), mk_node("target", "p1", "o", []), mk_node(k2, "p1", "a", [("p1", "o")])]
    for nocmd in (0, 1):
        for name in ("atest", "test", "testa", "a"):
            yield [T("p1", name, nocmd=nocmd)]
            yield [T("p1", name, nocmd=nocmd, deps=[("p1", "dtest")]), T("p1", "dtest")]


# spellings that leave the workspace lexically and name their way back in (in-process root /w/ws; every CLI workspace
# is <scratch>/.../w/ws), one that comes back beside the workspace (wsx) and one that stays out
REENTRANT = [("f", "../../ws/p1/a"), ("d", "../../ws/p1/a"), ("d", "../../ws/p1"), ("f", "../../ws/p2/a"),
             ("f", "../../../w/ws/p1/a"), ("f", "../../ws/p1/a/b"), ("d", "../../ws"), ("f", "../../wsx/p1/a"),
             ("f", "../../ws/../ws/p1/a")]


def reentrant_stream():
    """S2c: two targets, one output spelled through REENTRANT against every spelling of SPELL and REENTRANT, both package
    placements, unordered or ordered: conflict detection must judge the PLACE an output denotes, not its spelling."""
    for (pa, pb) in (("p1", "p1"), ("p1", "p2"), ("p2", "p1")):
        for o1 in REENTRANT:
            for o2 in SPELL + REENTRANT:
                for rel in ("none", "b->a"):
                    a = T(pa, "a", outs=[o1])
                    b = T(pb, "b", outs=[o2], deps=[(pa, "a")] if rel == "b->a" else [])
                    yield [a, b]


# spellings for the three-output stream: siblings whose names sort between P and P/ in byte order
# ("a-x", "a.d", "a b" < "a/b"), nested directories, files inside and beside a directory output
TRI = [("d", "a"), ("d", "a/b"), ("d", "a-x"), ("d", "a.d"), ("d", "a b"), ("d", "a/b/c"), ("d", "ab"),
       ("f", "a/b"), ("f", "a-x"), ("f", "a/b/f"), ("f", "a.d/f"), ("f", "ab")]


def triple_stream():
    """S2b: three targets with one output each (every ordered triple over TRI), unordered or with one
    dependency edge; decides defects of conflict detection that depend on the whole SET of outputs
    (sorting, early exits, grouping), which no pair-wise stream can show."""
    for o1 in TRI:
        for o2 in TRI:
            for o3 in TRI:
                for rel in ("none", "c->a"):
                    a = T("p1", "a", outs=[o1])
                    b = T("p1", "b", outs=[o2])
                    c = T("p1", "c", outs=[o3])
                    if rel == "c->a":
                        c["deps"] = [lab(a)]
                    yield [a, b, c]


def product_sample(rng, count):
    """S3: seeded draws from the full product over <= 3 nodes: kind x package x duplicate-label
    flag x dependency subset x 0..2 output spellings x bin output x inputs x command."""
    for _ in range(count):
        n = 1 + rng.below(3)
        kinds = [rng.choice(KINDS) for _ in range(n)]
        bases = []
        for i in range(n):
            b = (rng.choice(["p1", "p2"]), "abc"[i])
            if i > 0 and rng.chance(1, 12):
                b = bases[rng.below(i)]
            bases.append(b)
        labels = [label_for(k, b) for k, b in zip(kinds, bases)]
        univ = labels + ([DANGLING] if rng.chance(1, 6) else [])
        g = []
        for i, k in enumerate(kinds):
            if k == "alias":
                deps = [rng.choice(univ)]
                g.append(mk_node(k, bases[i][0], bases[i][1], deps))
                continue
            deps = [u for u in univ if rng.chance(1, 3)]
            no = rng.choice([0, 1, 1, 2])
            outs = [rng.choice(SPELL) for _ in range(no)]
            ins = [rng.choice(INPUTS)] if rng.chance(1, 5) else []
            g.append(mk_node(k, bases[i][0], bases[i][1], deps, outs=outs, bin=rng.choice(BINS), ins=ins,
                             nocmd=rng.chance(1, 8)))
        yield g


def random_graphs(rng, count, maxn=12):
    """S4: random graphs of 4..maxn nodes, mostly acyclic (dependencies on earlier nodes) with
    occasional back edges, aliases anywhere, outputs from a pool that makes clashes likely."""
    for _ in range(count):
        n = 4 + rng.below(maxn - 3)
        pkgs = ["p1", "p2", "p1/q"]
        g, labels = [], []
        safe = rng.chance(2, 3)      # safe: only plain output spellings, so that deep graphs get accepted too
        pool = [("f", "o%d" % i) for i in range(4)] + [("d", "d%d" % i) for i in range(2)] + [("f", "d0/x"), ("k", "img")]
        if not safe:
            pool += SPELL
        for i in range(n):
            kind = rng.choice(["target", "target", "target", "test", "testonly", "alias"])
            base = (rng.choice(pkgs), "n%d" % i)
            l = label_for(kind, base)
            cand = labels[:] if labels else []
            back = [] if rng.chance(9, 10) else [("p1", "n%d" % (i + 1 + rng.below(3)))]
            if kind == "alias":
                deps = [rng.choice(cand)] if cand else [DANGLING]
            else:
                deps = [c for c in cand if rng.chance(1, 4)] + back
                if not safe and rng.chance(1, 20):
                    deps.append(l)
            kw = {}
            if kind != "alias":
                kw["outs"] = [rng.choice(pool) for _ in range(rng.choice([0, 0, 1, 1, 2]))]
                kw["ins"] = [rng.choice(INPUTS[:4] if safe else INPUTS)] if rng.chance(1, 4) else []
                kw["nocmd"] = (not safe) and rng.chance(1, 10)
            g.append(mk_node(kind, base[0], base[1], deps, **kw))
            labels.append(l)
        yield rng.shuffle(g)


def planted_graphs(rng, count, maxn=14):
    """S5: graphs that are valid by construction (plain targets, dependencies on earlier nodes only, no inputs, every output path
    unique) EXCEPT for one planted conflict between two targets that are not ordered by dependency -- or none at all (must be
    accepted).  No other defect can mask the verdict, and the many ordered overlaps (a dependant rewriting its dependency's
    output is allowed) and shared dependants keep the ancestor-set memo of the conflict detection busy before the planted pair
    is examined (docker-tag pairs and equal files are examined before directories)."""
    def add(lst, x):
        if x not in lst:          # the same output twice in ONE target is finding C11-F2's subject, not this stream's
            lst.append(x)
    for _ in range(count):
        n = 5 + rng.below(maxn - 4)
        deps = [[j for j in range(i) if rng.chance(1, 3)] for i in range(n)]
        # reachability (i reaches j: j is an ancestor of i)
        anc = [set() for _ in range(n)]
        for i in range(n):
            for j in deps[i]:
                anc[i] |= {j} | anc[j]
        outs = [[("f", "u%d" % i)] if rng.chance(2, 3) else [] for i in range(n)]
        # ordered overlaps: a dependant writes the same file / image / inside the directory of one of its ancestors
        for i in range(n):
            if anc[i] and rng.chance(1, 2):
                j = rng.choice(sorted(anc[i]))
                kind = rng.choice(["file", "img", "dir"])
                if kind == "file":
                    add(outs[j], ("f", "s%d" % j)); add(outs[i], ("f", "s%d" % j))
                elif kind == "img":
                    add(outs[j], ("k", "img%d" % j)); add(outs[i], ("k", "img%d" % j))
                else:
                    add(outs[j], ("d", "dd%d" % j)); add(outs[i], ("f", "dd%d/x%d" % (j, i)))
        unordered = [(a, b) for a in range(n) for b in range(a) if b not in anc[a] and a not in anc[b]]
        planted = None
        if unordered and rng.chance(3, 4):
            a, b = rng.choice(unordered)
            kind = rng.choice(["file", "dirfile", "dirdir", "img"])
            if kind == "file":
                add(outs[a], ("f", "clash")); add(outs[b], ("f", "clash"))
            elif kind == "dirfile":
                add(outs[a], ("d", "cl")); add(outs[b], ("f", "cl/in"))
            elif kind == "dirdir":
                add(outs[a], ("d", "cl")); add(outs[b], ("d", "cl/sub"))
            else:
                add(outs[a], ("k", "clashimg")); add(outs[b], ("k", "clashimg"))
            planted = (a, b, kind)
        g = [T("p1", "n%d" % i, deps=[("p1", "n%d" % j) for j in rng.shuffle(deps[i])], outs=outs[i]) for i in range(n)]
        yield rng.shuffle(g)


def path_lines(tier):
    """S5: the path functions themselves on every string over {/ . a b} up to a length bound."""
    n = 6 if tier == "quick" else 8
    strs = [""]
    for k in range(1, n + 1):
        strs += ["".join(t) for t in itertools.product("/.ab", repeat=k)]
    lines = []
    for s in strs:
        lines.append("clean\t" + hx(s))
        lines.append("esc\t" + hx(s))
    short = [s for s in strs if len(s) <= (5 if tier == "quick" else 6)]
    for s in short:
        for pkg in ("", "p1", "p1/q"):
            lines.append("outpath\t%s\t%s\t%s" % (hx(ROOT), hx(pkg), hx(s)))
            lines.append("join\t%s\t%s" % (hx(pkg), hx(s)))
            lines.append("ws\t%s\t%s\t%s" % (hx(ROOT), hx(pkg), hx(s)))
            # a root over the alphabet of the strings: spellings that re-enter it or share only its first element
            lines.append("outpath\t%s\t%s\t%s" % (hx("/a/b"), hx(pkg), hx(s)))
            lines.append("ws\t%s\t%s\t%s" % (hx("/a/b"), hx(pkg), hx(s)))
    tiny = [s for s in strs if len(s) <= 3] + ["dist", "dist2", "dist/a", "dist2/a", "a/b/c", "../a", "../a/b", "."]
    for a in tiny:
        for b in tiny:
            lines.append("within\t%s\t%s" % (hx(a), hx(b)))
    for rel in ["../../ws/p1/a", "../../../w/ws/x", "../../../../w/ws", "../../wsx/a", "../../w/ws/a", "../..", "../../ws", "a/../../../ws/p1"]:
        for pkg in ("", "p1", "p1/q"):
            for root in (ROOT, "/r"):
                lines.append("ws\t%s\t%s\t%s" % (hx(root), hx(pkg), hx(rel)))
                lines.append("outpath\t%s\t%s\t%s" % (hx(root), hx(pkg), hx(rel)))
    return lines


# ------------------------------------------------------------------ judging one graph
def parse_obs(s):
    """'dup' | 'graph=..\\tcons=..\\taccept|reject' -> (accepts, graph classes set, constraint classes set)"""
    if s == "dup":
        return False, {"dup"}, set()
    f = s.split("\t")
    gc = set() if f[0] == "graph=ok" else set(f[0][len("graph="):].split("+"))
    cc = set() if f[1] == "cons=-" else set(f[1][len("cons="):].split(","))
    return f[2] == "accept", gc, cc


def corresponds(impl, model):
    if impl == "dup" or model == "dup":
        return impl == model
    ia, ig, ic = parse_obs(impl)
    ma, mg, mc = parse_obs(model)
    return ia == ma and ic == mc and ((not ig and not mg) or (len(ig) == 1 and ig <= mg))


def judge(out, findings, rootc, g, impl):
    """Oracle of C11 on the implementation's answer.  Returns None (holds), ('known', id, text) or
    ('violation', text)."""
    accepts, gcls, ccls = parse_obs(impl)
    D = reference(rootc, g)
    if accepts and not D:
        return None
    if not accepts and D:
        return None
    if accepts:
        classes = {}
        for d in D:
            c = defect_class(g, d)
            if c is None or c not in findings:
                return ("violation", "accepted although the graph has a %s defect %s" % (d[0], json.dumps(d[1])))
            classes.setdefault(c, d)
        c, d = sorted(classes.items())[0]
        return ("known", findings[c]["id"], "[%s] accepted: %s -- %s" % (c, show(g), json.dumps(d[1])), sorted(classes))
    # rejected although defect free
    sto = same_target_overlap(rootc, g)
    if gcls == {"conflict"} and not ccls and sto and "same-target-overlap" in findings:
        return ("known", findings["same-target-overlap"]["id"],
                "[same-target-overlap] rejected as a conflict: %s -- outputs %s and %s of %s" % (show(g), sto[1], sto[2], sto[0]),
                ["same-target-overlap"])
    return ("violation", "rejected (%s) although the reference validator finds no defect" % ",".join(sorted(gcls | ccls)))


def export_overlay():
    return {os.path.join(vlib.REPO, "internal", "analysis", "zz_verif_export.go"):
            os.path.join(vlib.HARNESS, "analysis", "inject", "internal__analysis", "zz_verif_export.go")}


def run(out, tier):
    rng = vlib.Rng(vlib.seed())
    quick = tier == "quick"
    rootc = [c for c in ROOT.split("/") if c]
    streams = []
    corpus = os.path.join(vlib.VERIF, "corpus", "C11", "graphs.jsonl")
    if os.path.exists(corpus):
        streams += [("corpus", norm(json.loads(l))) for l in open(corpus) if l.strip() and not l.startswith("#")]
    s1 = list(structure_stream())
    n_structure = len(s1)
    if quick:
        s1 = rng.sample(s1, 20000)
    streams += [("structure", g) for g in s1]
    streams += [("spelling", g) for g in spelling_stream()]
    streams += [("reentrant", g) for g in reentrant_stream()]
    s2b = list(triple_stream())
    if quick:
        s2b = rng.sample(s2b, 1500)
    streams += [("triple", g) for g in s2b]
    streams += [("product", g) for g in product_sample(rng, 20000 if quick else 600000)]
    streams += [("random", g) for g in random_graphs(rng, 3000 if quick else 60000)]
    streams += [("planted", g) for g in planted_graphs(rng, 1500 if quick else 30000)]
    graphs = [g for _, g in streams]
    glines = [wire(g) for g in graphs]
    plines = path_lines(tier)
    lines = glines + plines

    drv = vlib.build_driver("analysis")
    rc_m, model, err_m = vlib.run_lines(drv, lines)
    if rc_m != 0 or len(model) != len(lines):
        raise RuntimeError("model driver failed: rc=%s lines=%d/%d %s" % (rc_m, len(model), len(lines), err_m[-500:]))
    inproc = True
    impl = None
    try:
        h = vlib.build_harness("analysis", extra_overlay=export_overlay())
        rc_i, impl, err_i = vlib.run_lines(h, lines)
        if rc_i != 0 or len(impl) != len(lines):
            k = len(impl)
            out.violation("analysis harness crashed or truncated its output (rc=%s, %d/%d lines): %s" % (rc_i, k, len(lines), err_i[-300:]),
                          {"line": lines[k] if k < len(lines) else None, "graph": graphs[k] if k < len(graphs) else None,
                           "stderr": err_i[-2000:]})
            impl = impl + ["<missing>"] * (len(lines) - len(impl))
    except vlib.HarnessUnavailable as e:
        inproc = False
        out.notes.append("inprocess_tie: unavailable (%s)" % str(e)[-500:])

    findings = {f["class"]: f for f in vlib.known_findings("C11")}
    mism, fails, known_classes = [], [], {}
    dist = {"accept": 0, "reject": 0}
    cls_count = {}
    nontrivial = set()
    per_stream = {}
    if impl is not None:
        for i, g in enumerate(graphs):
            per_stream[streams[i][0]] = per_stream.get(streams[i][0], 0) + 1
            if impl[i] == "<missing>":
                continue
            if not corresponds(impl[i], model[i]):
                mism.append(i)
            acc, gc, cc = parse_obs(impl[i])
            dist["accept" if acc else "reject"] += 1
            for c in gc | cc:
                cls_count[c] = cls_count.get(c, 0) + 1
            if len(g) >= 2:
                nontrivial.add(glines[i])
            r = judge(out, findings, rootc, g, impl[i])
            if r is None:
                continue
            if r[0] == "known":
                out.known(r[1], r[2])
                for c in r[3]:
                    known_classes[c] = known_classes.get(c, 0) + 1
            else:
                fails.append((i, r[1]))
        for j in range(len(glines), len(lines)):
            if impl[j] != model[j]:
                mism.append(j)
    for i, why in fails[:3]:
        g = graphs[i]
        out.violation("%s: %s (implementation: %s)" % (why, show(g), impl[i].replace("\t", " ")),
                      {"graph": g, "root": ROOT, "line": glines[i], "impl": impl[i], "model": model[i],
                       "reference_defects": reference(rootc, g), "stream": streams[i][0],
                       "replay_cmd": "./check C11 --replay <this file>"})
    if mism and not fails:
        i = mism[0]
        what = show(graphs[i]) if i < len(graphs) else lines[i]
        out.violation("correspondence Analysis.v/Path.v ~ internal/analysis broke on %d cases, e.g. %s: impl=%s model=%s; "
                      "no oracle of C11 fails on the implementation" % (len(mism), what, impl[i].replace("\t", " "), model[i].replace("\t", " ")),
                      {"correspondence": "Analysis.classes vs BuildNodeMapFromPackages/BuildGraph/CheckTargetConstraints; "
                                         "Path.clean/join_path/tries_to_escape/path_within/clean_output_path/is_within_workspace vs filepath.Clean/Join and "
                                         "the analysis helpers",
                       "line": lines[i], "graph": graphs[i] if i < len(graphs) else None, "impl": impl[i], "model": model[i],
                       "mismatching_cases": len(mism)}, no_input=True)

    cli = cli_tie(out, rng, tier, streams, model, findings)

    samples = []
    for i in (0, len(graphs) // 3, len(graphs) - 1):
        samples.append({"stream": streams[i][0], "graph": show(graphs[i]), "impl": (impl or model)[i], "model": model[i],
                        "reference_defects": [d[0] for d in reference(rootc, graphs[i])]})
    out.cov.update({
        "evaluations": len(lines),
        "graphs": len(graphs),
        "path_function_cases": len(plines),
        "distinct_nontrivial": len(nontrivial),
        "rule": "streams: structure = %s of the %d graphs with 1..3 nodes over {target, test target, testonly target, alias} x all "
                "dependency subsets over the graph's labels and one dangling label; spelling = all pairs of %d output spellings x 2 package "
                "placements x 4 dependency relations, all two-output and output+bin_output targets, %d input spellings x 3 packages, "
                "duplicate labels, tests without command; reentrant = %d spellings that leave the workspace lexically and come back x all "
                "spellings x 3 package placements x unordered/ordered; product = seeded draws from the full <=3-node product; random = graphs of 4..12 "
                "nodes; path functions on every string over {/ . a b} up to length %d. non-trivial = graph with at least two nodes; "
                "distinct = distinct wire lines" % ("a seeded sample of 20000" if quick else "all", n_structure, len(SPELL), len(INPUTS), len(REENTRANT),
                                                  6 if quick else 8),
        "exhaustive": not quick,
        "per_stream": per_stream,
        "samples": samples,
        "traces_validated_against_impl": len(lines) if impl is not None else 0,
        "correspondence_mismatches": len(mism),
        "oracle_failures": len(fails),
        "input_distribution": {"verdicts": dist, "classes_reported_by_impl": cls_count, "known_finding_hits": known_classes},
        "inprocess_tie": inproc,
        "cli_tie": cli,
        "cycle_theorem": "faithful: C11_find_cycle_iff / C11_cycle_iff are proved for the three-colour DFS itself, any graph size "
                         "(no bounded sweep, no fallback); C11_find_cycle_fuel: the fuel never runs out",
        "refuted_witnesses_replayed_on_impl": "corpus/C11/graphs.jsonl line 2 is the witness of C11_same_target_overlap_refuted (F2); it must show up as "
                                              "its KNOWN-FINDING. Lines 1, 3 and 4 are the former witnesses of the repaired findings F1 (dir output outside "
                                              "the workspace), F3 (output that leaves the workspace lexically and re-enters it) and F4 (dir output that is "
                                              "the workspace root), now C11_dir_output_escape_rejected / C11_reentrant_overlap_rejected / "
                                              "C11_root_dir_overlap_rejected: the implementation must reject them (an acceptance is a VIOLATION unless "
                                              "known_findings.txt still lists the class)",
    })
    out.assumptions += [
        "graphs that load: syntactic rejections of the loader are C16's subject; output types are file/dir/docker",
        "the workspace root is a clean absolute path with at least one element (in-process tie: %s and /r; CLI tie: the real scratch path)" % ROOT,
        "grog's extra rule 'a test target needs a command' is part of defect_free (tests_have_commands)",
        "an input or output path that leaves its package / the workspace and names its way back in (../p1/x from p1) counts as escaping "
        "for inputs (names above the package are not known) and as inside for outputs (the workspace root is known), as in the code",
    ]


# ------------------------------------------------------------------ CLI tie
def render_ws(ws, g, trace):
    """BUILD.json files for g under ws; every command appends its label to `trace` and creates
    the declared file/dir outputs."""
    pk = {}
    for n in g:
        p = pk.setdefault(n["pkg"], {"targets": [], "aliases": []})
        if n["k"] == "A":
            p["aliases"].append({"name": n["name"], "actual": "//%s:%s" % n["actual"]})
            continue
        cmd = ["echo '//%s:%s' >> %s" % (n["pkg"], n["name"], trace)]
        for t, i in all_outs(n):
            if t == "f":
                i = posixpath.normpath(i)
                cmd.append("mkdir -p \"$(dirname '%s')\" && touch '%s'" % (i, i))
            elif t == "d":
                cmd.append("mkdir -p '%s' && touch '%s/f'" % (i, i))
        t = {"name": n["name"], "command": "" if n["nocmd"] else " && ".join(cmd)}
        if n["deps"]:
            t["dependencies"] = ["//%s:%s" % d for d in n["deps"]]
        if n["ins"]:
            t["inputs"] = n["ins"]
        if n["outs"]:
            t["outputs"] = [{"f": "", "d": "dir::", "k": "docker::"}[ty] + i for ty, i in n["outs"]]
        if n["bin"]:
            t["bin_output"] = n["bin"]
        if n["tags"]:
            t["tags"] = n["tags"]
        p["targets"].append(t)
    os.makedirs(ws, exist_ok=True)
    open(os.path.join(ws, "grog.toml"), "w").write("")
    for p, body in pk.items():
        d = os.path.join(ws, p)
        os.makedirs(d, exist_ok=True)
        with open(os.path.join(d, "BUILD.json"), "w") as f:
            json.dump(body, f)


def cli_ok(g):
    """Graphs the CLI tie can render without the loader interfering: globs / empty strings in inputs
    and empty output identifiers are loader matters."""
    for n in g:
        if n["k"] == "T":
            if any(i == "" or any(c in i for c in "*?[{") for i in n["ins"]):
                return False
            if any(i == "" for _, i in n["outs"]):
                return False
    return True


def buildable(g):
    """`grog build` with the rendered commands can be expected to succeed: something non-test to
    build, no docker outputs (no daemon here), no two outputs at overlapping places."""
    if not any(n["k"] == "T" and not is_test(n) for n in g):
        return False
    locs = []
    for n in g:
        if n["k"] == "T":
            if n["nocmd"] and all_outs(n):
                return False              # declares outputs but has nothing that could produce them
            if any(not walk_rel(i.split("/")) for i in n["ins"]):
                return False              # an input naming the package directory itself (a/..) fails at hashing time
            for t, i in all_outs(n):
                if t == "k":
                    return False
                locs.append(location(["w", "ws"], n["pkg"], i))   # every CLI workspace is <scratch>/.../w/ws
    for a in range(len(locs)):
        for b in range(len(locs)):
            if a != b and is_prefix(locs[a], locs[b]):
                return False              # ordered writers of overlapping places: legal, but `touch`/`mkdir` would collide
    return True


def cli_tie(out, rng, tier, streams, model, findings):
    try:
        grog = vlib.build_grog()
    except vlib.HarnessUnavailable as e:
        out.notes.append("cli_tie: unavailable (%s)" % str(e)[-300:])
        return {"available": False}
    want = 40 if tier == "quick" else 400
    # half accepted graphs (preferring ones `grog build` can really build), half rejected ones
    # stratified by the model's answer so that every defect class is represented
    by_sig, acc_build, acc_other = {}, [], []
    for i, (name, g) in enumerate(streams):
        if not cli_ok(g):
            continue
        if parse_obs(model[i])[0]:
            (acc_build if buildable(g) and len(g) >= 2 else acc_other).append(i)
        else:
            by_sig.setdefault(model[i], []).append(i)
    picks = rng.sample(acc_build, want * 3 // 8) + rng.sample(acc_other, want // 8)
    sigs = rng.shuffle(sorted(by_sig))
    k = 0
    while len(picks) < want and sigs:
        picks.append(rng.choice(by_sig[sigs[k % len(sigs)]]))
        k += 1
    base = os.path.join(vlib.scratch(), "c11cli")
    drv = vlib.build_driver("analysis")
    cases = []
    for n, i in enumerate(picks):
        g = streams[i][1]
        top = os.path.join(base, "c%d" % n)
        ws = os.path.join(top, "w", "ws")
        trace = os.path.join(top, "trace.txt")
        render_ws(ws, g, trace)
        cases.append((g, ws, trace, top))
    _, mres, _ = vlib.run_lines(drv, [wire(g, root=ws) for g, ws, _, _ in cases])

    def one(c):
        g, ws, trace, top = c
        env = dict(os.environ, GROG_ROOT=os.path.join(top, "root"), HOME=top)
        r1 = vlib.run([grog, "check"], cwd=ws, env=env, timeout=120)
        traced1 = os.path.exists(trace) and os.path.getsize(trace) > 0
        r2 = vlib.run([grog, "build"], cwd=ws, env=env, timeout=180)
        traced2 = open(trace).read() if os.path.exists(trace) else ""
        return r1.returncode, traced1, r2.returncode, traced2, (r1.stdout + r1.stderr)[-600:], (r2.stdout + r2.stderr)[-600:]

    with ThreadPoolExecutor(32) as ex:
        res = list(ex.map(one, cases))
    bad = 0
    n_rej = n_acc = n_built = 0
    for (g, ws, trace, top), m, (c1, t1, c2, t2, o1, o2) in zip(cases, mres, res):
        m_acc = parse_obs(m)[0]
        rootc = [c for c in ws.split("/") if c]
        clean = not reference(rootc, g)
        problem = None
        if t1:
            problem = "`grog check` executed a command"
        elif m_acc != (c1 == 0):
            problem = "`grog check` exit status %d, model says %s" % (c1, "accept" if m_acc else "reject")
        elif not m_acc:
            n_rej += 1
            if c2 == 0:
                problem = "`grog build` succeeded on a graph the model rejects"
            elif t2.strip():
                problem = "`grog build` failed but executed commands first: %s" % t2.split()
        else:
            n_acc += 1
            if clean and buildable(g):
                n_built += 1
                if c2 != 0:
                    problem = "`grog build` fails (exit %d) on a defect-free graph" % c2
        if problem:
            bad += 1
            if m_acc != (c1 == 0) and (c1 == 0) == clean:
                # the binary agrees with the property, only the model is off: correspondence
                out.violation("CLI tie: %s: %s" % (problem, show(g)),
                              {"correspondence": "Analysis.validate vs grog check", "graph": g, "root": ws, "model": m,
                               "check_exit": c1, "build_exit": c2, "check_output": o1}, no_input=True)
            else:
                out.violation("CLI tie: %s: %s" % (problem, show(g)),
                              {"graph": g, "root": "<scratch>/w/ws", "model": m, "check_exit": c1, "build_exit": c2,
                               "trace_after_build": t2, "check_output": o1, "build_output": o2, "cli": True})
    return {"available": True, "workspaces": len(cases), "rejected": n_rej, "accepted": n_acc,
            "accepted_and_built": n_built, "disagreements": bad}


# ------------------------------------------------------------------ replay
def replay(out, path):
    rp = json.load(open(path))["replay"]
    g = rp.get("graph")
    root = rp.get("root", ROOT)
    if g:
        g = norm(g)
    if not g:
        line = rp["line"]
        h = vlib.build_harness("analysis", extra_overlay=export_overlay())
        drv = vlib.build_driver("analysis")
        _, impl, _ = vlib.run_lines(h, [line])
        _, model, _ = vlib.run_lines(drv, [line])
        print("impl :", impl[0]); print("model:", model[0])
        if impl[0] != model[0]:
            out.violation("replay: implementation and model still differ on %s" % line, rp, no_input=True)
        return
    if not root.startswith("/w/") and not root.startswith("/r"):
        root = ROOT
    rootc = [c for c in root.split("/") if c]
    line = wire(g, root=root)
    h = vlib.build_harness("analysis", extra_overlay=export_overlay())
    drv = vlib.build_driver("analysis")
    _, impl, _ = vlib.run_lines(h, [line])
    _, model, _ = vlib.run_lines(drv, [line])
    D = reference(rootc, g)
    print("graph    :", show(g))
    print("impl     :", impl[0].replace("\t", " "))
    print("model    :", model[0].replace("\t", " "))
    print("reference:", "defect free" if not D else D)
    findings = {f["class"]: f for f in vlib.known_findings("C11")}
    r = judge(out, findings, rootc, g, impl[0])
    if r and r[0] == "violation":
        out.violation("replay: " + r[1] + ": " + show(g), rp)
    elif r and r[0] == "known":
        out.known(r[1], r[2])
    if not corresponds(impl[0], model[0]) and not (r and r[0] == "violation"):
        out.violation("replay: implementation and model still differ", rp, no_input=True)
