"""Model-free witnesses of C13 that the history generator cannot express (its commands establish the condition their own output
check inspects, so a check never fails after an unchanged command ran)."""
import json, os, shutil, subprocess
import vlib, buildlib as bl


def witness_failed_check_keeps_taint(out):
    """`grog taint` is consumed by a SUCCESSFUL execution only.  //:t has an output check on an external probe file its command
    does not touch.  History: build (executes, cached); build (hit); taint; remove the probe; build -- the command runs, exits 0,
    the post-execution check fails, the build fails: NOT a successful execution; restore the probe; build -- the target is still
    tainted and must execute again although a valid cache entry exists; build -- now consumed: a hit."""
    grog = vlib.build_grog()
    base = os.path.join(vlib.scratch(), "c13taintcheck")
    shutil.rmtree(base, ignore_errors=True)
    evals = 0
    for variant in ("exit-status", "expected-output", "missing-output"):
        d = os.path.join(base, variant)
        ws, root = os.path.join(d, "ws"), os.path.join(d, "root")
        os.makedirs(ws); os.makedirs(root)
        probe = os.path.join(d, "probe")
        runs = os.path.join(d, "runs.log")
        check = {"command": 'test -f "%s"' % probe} if variant == "exit-status" else \
                {"command": 'cat "%s" 2>/dev/null || echo down' % probe, "expected_output": "up"}
        t = {"name": "t", "inputs": ["in.txt"], "outputs": ["out.txt"],
             "command": 'echo run >> "%s"; cp in.txt out.txt' % runs, "output_checks": [check]}
        if variant == "missing-output":
            # no check: with the probe down the command exits 0 WITHOUT creating its declared output -- the execution fails
            # while its outputs are collected, after the command and all checks passed
            t = {"name": "t", "inputs": ["in.txt"], "outputs": ["out.txt"],
                 "command": 'echo run >> "%s"; rm -f out.txt; if [ -f "%s" ]; then cp in.txt out.txt; fi' % (runs, probe)}
        json.dump({"targets": [t]}, open(os.path.join(ws, "BUILD.json"), "w"))
        open(os.path.join(ws, "in.txt"), "w").write("v1\n")
        open(os.path.join(ws, "grog.toml"), "w").write("")
        open(probe, "w").write("up\n")
        env = bl.grog_env(root, os.path.join(d, "trace"))
        env.pop("GROG_NUM_WORKERS", None)
        g = lambda *a: subprocess.run([grog] + list(a), cwd=ws, env=env, stdout=subprocess.PIPE, stderr=subprocess.PIPE, text=True, timeout=120)
        nruns = lambda: len(open(runs).read().split()) if os.path.exists(runs) else 0
        steps = []

        def step(name, fn):
            before = nruns()
            p = fn()
            steps.append({"step": name, "rc": p.returncode if p is not None else None, "executions": nruns() - before})
        step("build", lambda: g("build", "//:t"))
        step("build (no change)", lambda: g("build", "//:t"))
        step("taint", lambda: g("taint", "//:t"))
        os.unlink(probe)
        step("build with the probe down", lambda: g("build", "//:t"))
        open(probe, "w").write("up\n")
        step("build with the probe up again", lambda: g("build", "//:t"))
        step("build (taint consumed)", lambda: g("build", "//:t"))
        evals += 1
        desc = {"workspace": "//:t: cp in.txt out.txt, output check (%s) on an external probe file the command does not touch" % variant,
                "history": steps}
        want_exec = [1, 0, 0, 1, 1, 0]
        want_ok = [True, True, True, False, True, True]
        got_exec = [s["executions"] for s in steps]
        got_ok = [s["rc"] == 0 for s in steps]
        if got_ok[:3] != want_ok[:3] or got_exec[:3] != want_exec[:3]:
            out.violation("taint/check witness (%s): set-up did not behave as expected: %s" % (variant, steps[:3]), desc, no_input=True)
        elif got_ok[3]:
            out.violation("a build whose target's output check fails (or whose declared output is missing) after execution succeeded (%s)" % variant, desc)
        elif got_exec[4] != 1:
            out.violation("a taint was consumed by an execution that FAILED (after the command exited 0: post-execution output check or a declared output that was not created; %s): the next build restores the "
                          "tainted target from the cache instead of executing it" % variant, desc)
        elif got_exec[5] != 0 or not got_ok[5]:
            out.violation("after the successful execution of a tainted target the next build runs it again (%s)" % variant, desc)
    shutil.rmtree(base, ignore_errors=True)
    return evals
