"""C20 -- query commands agree with the graph and predict rebuilds.
Tie (CLI, real binary): `grog deps|rdeps [-t] [--target-type=..] <label>`, `grog owners <files>`,
`grog list <patterns>` on generated BUILD.json workspaces with aliases; stdout is compared as a
MULTISET of lines with Select.deps_query / rdeps_query / owners / list_query (every label once since
the repair of C20-F1: C20_*_printed_nodup; an alias is filtered like the target it stands for since the
repair of C20-F2: C20_*_printed_exact, C20_filter_alias) and as a SET with a Python reference (BFS over the
dependency relation).  In-process: GetAncestors / GetDescendants against Select.deps_t / rdeps_t as
multisets of nodes, GetAncestors also as a list (first-visit order).  Rebuild prediction: build, edit one input
file, build again; the commands of the second build must be a subset of owners(f) + their
transitive rdeps as printed by the real query commands (+ targets tagged no-cache).
Spelling: a node carries its canonical inputs ("inputs": Python reference, files on disk) AND the spelling written to the
BUILD file ("spelled": ./f, zz/../f, d//f, d/./f); the model line carries the SPELLING, and the `owners` arguments as typed
(one in two respelled ./p/f, p//f, p/x/../f, p/./f) with the current package in front, uncleaned: model and implementation
see the same strings (Select.owners cleans both sides; C20_owners_spelling_independent, C20_owners_verbatim_refuted)."""
import json, os
from collections import Counter
from concurrent.futures import ThreadPoolExecutor
import vlib
from vlib import hx
import selectlib as sl

DUP_CLASS = "duplicate-labels"
ALIAS_CLASS = "alias-bypasses-filters"
TYPES = ["all", "all", "all", "test", "no_test", "bin_output"]


def gen_queries(r, nodes, nq):
    qs = []
    files = sorted({(nd["pkg"], f) for nd in nodes for f in nd["inputs"]})
    for _ in range(nq):
        kind = r.choice(["deps", "deps", "rdeps", "rdeps", "owners", "list"])
        cfg = sl.gen_cfg(r, nodes, kinds=TYPES)
        if r.chance(2, 3):
            cfg["tags"], cfg["excl"] = [], []
        q = {"kind": kind, "cfg": cfg}
        if kind in ("deps", "rdeps"):
            q["n"] = r.below(len(nodes))
            q["t"] = r.chance(2, 3)
            q["relative"] = r.chance(1, 4)
        elif kind == "owners":
            cand = files + [("", "nofile.txt"), ("a", "f1.txt"), ("", "f1.txt")]
            q["files"] = [r.choice(cand) for _ in range(1 + r.below(2))]
            q["from_pkg"] = r.chance(1, 3)
            # the arguments as typed: one in two in a non-canonical spelling (./p/f, p//f, p/x/../f, p/./f)
            q["args"] = [sl.respell_arg(r.below(5), a) if r.chance(1, 2) else a for a in canonical_args(q)]
        qs.append(q)
    return qs


def ws_rel(pkg, f):
    return f if pkg == "" else pkg + "/" + f


def owners_cwd(q):
    """the package `grog owners` is run in"""
    return q["files"][0][0] if q["from_pkg"] else ""


def canonical_args(q):
    """the files of an owners query as clean paths relative to the directory the command runs in"""
    pkg = owners_cwd(q)
    return [os.path.relpath(ws_rel(p, f), pkg if pkg else ".") for p, f in q["files"]]


def owners_args(q):
    """the arguments as typed (q["args"]; replays written before arguments were spelled have none: canonical)"""
    return list(q["args"]) if q.get("args") else canonical_args(q)


def model_files(q):
    """what the model receives: every argument as typed, made relative to the workspace root by putting the current
    package in front of it, NOT cleaned (Select.canon_arg cleans, as filepath.Abs does)"""
    pkg = owners_cwd(q)
    return [ws_rel(pkg, a) for a in owners_args(q)]


def model_line(nodes, q):
    en = sl.enc_nodes(nodes)
    cfg = dict(q["cfg"])
    if q["kind"] == "list" and not cfg["pats"]:
        cfg["pats"] = [":all"]      # `grog list` without arguments lists the current package
    ec = sl.enc_cfg(cfg)
    if q["kind"] in ("deps", "rdeps"):
        return "%s\t%s\t%s\t%d\t%d" % (q["kind"], en, ec, q["n"], 1 if q["t"] else 0)
    if q["kind"] == "owners":
        return "owners\t%s\t%s\t%s" % (en, ec, ".".join(hx(f) for f in model_files(q)))
    return "listq\t%s\t%s" % (en, ec)


def cli_args(nodes, q):
    """(argv after `grog`, cwd package)"""
    cfg = q["cfg"]
    if q["kind"] in ("deps", "rdeps"):
        nd = nodes[q["n"]]
        args = [q["kind"]] + (["-t"] if q["t"] else []) + ["--target-type=" + cfg["type"]] + sl.cli_flags(cfg)
        if q["relative"]:
            return args + [":" + nd["name"]], nd["pkg"]
        return args + [sl.label_of(nd)], cfg["cur"]
    if q["kind"] == "owners":
        return ["owners"] + owners_args(q), owners_cwd(q)
    return ["list", "--target-type=" + cfg["type"]] + sl.cli_flags(cfg) + cfg["pats"], cfg["cur"]


def reference(nodes, q):
    """(set of expected labels, set of alias labels the code prints although their target is filtered out)"""
    cfg = q["cfg"]
    if q["kind"] in ("deps", "rdeps"):
        n = q["n"]
        if q["kind"] == "deps":
            base = sl.strict_ancestors(nodes, n) if q["t"] else set(nodes[n]["deps"])
        else:
            base = sl.ref_rdeps(nodes, n) if q["t"] else set(sl.dependants_of(nodes, n))
        want, alias_extra = set(), set()
        for i in base:
            ok, byp = sl.ref_query_filter(cfg, nodes, i)
            if ok:
                want.add(sl.label_of(nodes[i]))
            elif byp:
                alias_extra.add(sl.label_of(nodes[i]))
        return want, alias_extra
    if q["kind"] == "owners":
        fs = {ws_rel(p, f) for p, f in q["files"]}
        return {sl.label_of(nd) for nd in nodes if nd["kind"] == "t" and any(ws_rel(nd["pkg"], i) in fs for i in nd["inputs"])}, set()
    c2 = dict(cfg)
    if not cfg["pats"]:
        c2["pat_meaning"] = [(":all", lambda cur: (cur, "all", False))]
    want, alias_extra = set(), set()
    for i, nd in enumerate(nodes):
        if not sl.ref_pattern_ok(c2, nd):
            continue
        ok, byp = sl.ref_query_filter(cfg, nodes, i)
        if ok:
            want.add(sl.label_of(nd))
        elif byp:
            alias_extra.add(sl.label_of(nd))
    return want, alias_extra


def run_query(grog, ws, env, nodes, q):
    args, pkg = cli_args(nodes, q)
    p = vlib.run([grog] + args, cwd=os.path.join(ws, pkg), env=env, timeout=120)
    return {"args": args, "cwd": pkg, "exit": p.returncode, "lines": [l for l in p.stdout.split("\n") if l.startswith("//")],
            "err": p.stderr[-400:]}


def qjson(nodes, q):
    d = {k: v for k, v in q.items() if k != "cfg"}
    d["cfg"] = sl.cfg_json(q["cfg"])
    return {"nodes": nodes, "query": d}


def check_query(out, nodes, q, res, mline, findings, stats, budget):
    """model = multiset of lines; reference = set"""
    f = mline.split("\t")
    model = [vlib.unhxs(x) for x in f[1].split(",")] if len(f) > 1 and f[1] else []
    got = res["lines"]
    rp = dict(qjson(nodes, q), cmd="grog " + " ".join(res["args"]), cwd_package=res["cwd"], stdout=got, model=model, exit=res["exit"],
              stderr=res["err"])
    if res["exit"] != 0:
        if budget[0] > 0:
            budget[0] -= 1
            out.violation("grog %s failed (exit %d): %s" % (" ".join(res["args"]), res["exit"], res["err"][-200:]), rp)
        return False
    want, alias_extra = reference(nodes, q)
    gs = set(got)
    ok = True
    alias_known = False
    dups = sorted(l for l, c in Counter(got).items() if c > 1)
    if dups:
        stats["dup"] += 1
        fd = findings.get(DUP_CLASS)
        # class guard: the output as a set is right (up to the alias class), only multiplicities are wrong
        if fd and gs - alias_extra == want:
            out.known(fd["id"], "class=%s `grog %s` prints %s %d times (%d lines for %d distinct labels)" % (
                DUP_CLASS, " ".join(res["args"]), dups[0], Counter(got)[dups[0]], len(got), len(gs)))
        elif budget[0] > 0:
            budget[0] -= 1
            ok = False
            out.violation("`grog %s` prints a label more than once: %s" % (" ".join(res["args"]), dups[:3]), rp)
    if gs != want:
        extra, missing = gs - want, want - gs
        fa = findings.get(ALIAS_CLASS)
        if not missing and extra and extra <= alias_extra and fa:
            stats["alias"] += 1
            alias_known = True    # only on a tree without the repair of C20-F2: the model filters an alias like its target
            out.known(fa["id"], "class=%s `grog %s` prints alias %s although the target it stands for is filtered out (%s)" % (
                ALIAS_CLASS, " ".join(res["args"]), sorted(extra)[0], filt(q["cfg"])))
        elif budget[0] > 0:
            budget[0] -= 1
            ok = False
            out.violation("`grog %s` (cwd //%s) prints %s; the graph says %s (extra %s, missing %s)" % (
                " ".join(res["args"]), res["cwd"], sorted(gs), sorted(want), sorted(extra), sorted(missing)), rp)
        else:
            ok = False
    # model self-check: de-duplicating the node list before filtering changes nothing (every label is printed once anyway)
    dedup = [vlib.unhxs(x) for x in f[2].split(",")] if len(f) > 2 and f[2] else (model if len(f) <= 2 else [])
    if model != dedup or len(set(model)) != len(model):
        stats["model_selfcheck_failed"] = stats.get("model_selfcheck_failed", 0) + 1
        if budget[0] > 0:
            budget[0] -= 1
            out.violation("model: Select.%s_query prints %s, with the node list de-duplicated first %s (contradicts C20_*_printed_nodup)" % (
                q["kind"], model, dedup), dict(rp, theorem="C20_deps_printed_nodup"), no_input=True)
    # the code prints exactly the model's lines, as a multiset
    if Counter(got) == Counter(model):
        stats["lines_equal_model"] = stats.get("lines_equal_model", 0) + 1
    elif dups and findings.get(DUP_CLASS) and set(got) == set(model):
        stats["explained_by_known_duplicates"] = stats.get("explained_by_known_duplicates", 0) + 1
    elif alias_known and set(model) == want:
        stats["explained_by_known_alias_filter"] = stats.get("explained_by_known_alias_filter", 0) + 1
    else:
        stats["model_mismatch"] += 1
        stats.setdefault("first_mismatch", rp)
    return ok


def spelling_stats(drv, worlds, jobs, model, stats):
    """How much of the owners part of the run depends on spelling: queries on which Select.owners_verbatim (the comparison with the
    input as spelled, C20_owners_verbatim_refuted) prints something else than Select.owners; inputs / arguments written non-canonically;
    and the guard of C20_owners_abs_is_owners_partial evaluated on everything generated (nothing climbs above the workspace root)."""
    ow = [(k, wi, q) for k, (wi, q) in enumerate(jobs) if q["kind"] == "owners"]
    _, verb, _ = vlib.run_lines(drv, [model_line(worlds[wi][0], q).replace("owners\t", "owners-verbatim\t", 1) for _, wi, q in ow])
    stats["owners_queries"] = len(ow)
    stats["owners_queries_where_verbatim_comparison_differs"] = sum(1 for (k, _, _), v in zip(ow, verb) if v != model[k]) if len(verb) == len(ow) else -1
    stats["owners_queries_with_respelled_argument"] = sum(1 for _, _, q in ow if owners_args(q) != canonical_args(q))
    ins = [(nd, i, sp) for nodes, _ in worlds for nd in nodes for i, sp in zip(nd["inputs"], sl.spelled_inputs(nd))]
    stats["inputs"] = len(ins)
    stats["inputs_spelled_non_canonically"] = sum(1 for _, i, sp in ins if i != sp)
    stats["guard_stays_inside_violated"] = (sum(1 for nd, _, sp in ins if not sl.stays_inside(ws_rel(nd["pkg"], sp)))
                                            + sum(1 for _, _, q in ow for f in model_files(q) if not sl.stays_inside(f)))


def filt(cfg):
    return "type=%s tags=%s exclude=%s platform=%s%s" % (cfg["type"], cfg["tags"], cfg["excl"], cfg["plat"], " all-platforms" if cfg["all"] else "")


def inverse_check(out, grog, ws, env, nodes, r, stats, budget):
    """deps -t and rdeps -t are mutual inverses (as sets, unfiltered)"""
    n = len(nodes)
    i = r.below(n)
    base = ["--all-platforms", "--target-type=all"]
    p = vlib.run([grog, "deps", "-t"] + base + [sl.label_of(nodes[i])], cwd=ws, env=env, timeout=120)
    deps = {l for l in p.stdout.split("\n") if l.startswith("//")}
    lab = {sl.label_of(nd): k for k, nd in enumerate(nodes)}
    for j in range(n):
        if j == i:
            continue
        p2 = vlib.run([grog, "rdeps", "-t"] + base + [sl.label_of(nodes[j])], cwd=ws, env=env, timeout=120)
        rd = {l for l in p2.stdout.split("\n") if l.startswith("//")}
        stats["inverse_pairs"] += 1
        if (sl.label_of(nodes[j]) in deps) != (sl.label_of(nodes[i]) in rd) and budget[0] > 0:
            budget[0] -= 1
            out.violation("deps -t / rdeps -t are not inverse: %s in deps -t %s = %s, but %s in rdeps -t %s = %s" % (
                sl.label_of(nodes[j]), sl.label_of(nodes[i]), sl.label_of(nodes[j]) in deps,
                sl.label_of(nodes[i]), sl.label_of(nodes[j]), sl.label_of(nodes[i]) in rd),
                {"nodes": nodes, "x": sl.label_of(nodes[j]), "n": sl.label_of(nodes[i])})


def rebuild_case(grog, base, k, nodes, fsel):
    """build //..., edit one input file, build again; returns the second build's trace and the
    answers of the real `grog owners` / `grog rdeps -t`."""
    ws = os.path.join(base, "rb%d" % k)
    trace = os.path.join(base, "rbtrace%d.txt" % k)
    sl.render_workspace(nodes, ws, trace=trace)
    env = sl.grog_env(os.path.join(base, "rbroot%d" % k))
    cmds = []
    if any(nd["kind"] == "t" and not sl.is_test_name(nd["name"]) for nd in nodes):
        cmds.append("build")
    if any(nd["kind"] == "t" and sl.is_test_name(nd["name"]) for nd in nodes):
        cmds.append("test")

    def phase():
        rcs, outs = [], ""
        for c in cmds:
            b = vlib.run([grog, c, "--all-platforms", "//..."], cwd=ws, env=env, timeout=180)
            rcs.append(b.returncode)
            outs += (b.stdout + b.stderr)[-500:]
        tr = [l.strip() for l in open(trace)] if os.path.exists(trace) else []
        return max(rcs) if rcs else 0, tr, outs
    rc1, t1, o1 = phase()
    pkg, f = fsel
    path = os.path.join(ws, pkg, f)
    with open(path, "a") as fh:
        fh.write("edited\n")
    if os.path.exists(trace):
        os.unlink(trace)
    rc2, t2, o2 = phase()

    class B:
        pass
    b1, b2 = B(), B()
    b1.returncode, b1.stdout, b1.stderr = rc1, o1, ""
    b2.returncode, b2.stdout, b2.stderr = rc2, o2, ""
    ow = vlib.run([grog, "owners", sl.respell_arg(k, ws_rel(pkg, f))], cwd=ws, env=env, timeout=60)
    owners = [l for l in ow.stdout.split("\n") if l.startswith("//")]
    allowed = set(owners)
    for o in owners:
        rd = vlib.run([grog, "rdeps", "-t", "--all-platforms", o], cwd=ws, env=env, timeout=60)
        allowed |= {l for l in rd.stdout.split("\n") if l.startswith("//")}
    return {"exit1": b1.returncode, "exit2": b2.returncode, "trace1": t1, "trace2": t2, "owners": owners, "allowed": sorted(allowed),
            "out2": (b2.stdout + b2.stderr)[-600:], "out1": (b1.stdout + b1.stderr)[-600:]}


def rebuild_prediction(out, grog, r, tier, stats):
    n = 24 if tier == "quick" else 200
    cases = []
    tries = 0
    while len(cases) < n and tries < 50 * n:
        tries += 1
        nodes = sl.gen_world(r, nmax=9, constraints=True, files=True, bins=False, plats=False, nocache=True, dupdeps=False, spell=True)
        files = sorted({(nd["pkg"], f) for nd in nodes for f in nd["inputs"]})
        if not files:
            continue
        cases.append((nodes, r.choice(files)))
    base = os.path.join(vlib.scratch(), "c20rb")
    os.makedirs(base, exist_ok=True)
    with ThreadPoolExecutor(max_workers=24) as ex:
        results = list(ex.map(lambda a: rebuild_case(grog, base, a[0], a[1][0], a[1][1]), enumerate(cases)))
    rebuilt_nonempty = 0
    for (nodes, fsel), res in zip(cases, results):
        rp = {"nodes": nodes, "edited_file": ws_rel(*fsel), "scenario": "grog build //... + grog test //...; edit one input file; the same commands again", **res}
        if res["exit1"] != 0 or res["exit2"] != 0:
            out.violation("rebuild scenario: grog build failed (exit %d / %d): %s" % (res["exit1"], res["exit2"], (res["out1"] + res["out2"])[-300:]), rp)
            continue
        nocache = {sl.label_of(nd) for nd in nodes if "no-cache" in nd["tags"]}
        ex2 = set(res["trace2"])
        if ex2 - nocache:
            rebuilt_nonempty += 1
        bad = ex2 - set(res["allowed"]) - nocache
        # reference: the real owners / rdeps answers agree with the graph
        fs = ws_rel(*fsel)
        ref_owners = {sl.label_of(nd) for nd in nodes if nd["kind"] == "t" and any(ws_rel(nd["pkg"], i) == fs for i in nd["inputs"])}
        if set(res["owners"]) != ref_owners:
            out.violation("`grog owners %s` prints %s, the targets with that input are %s" % (fs, res["owners"], sorted(ref_owners)), rp)
        if bad:
            out.violation("after editing %s the build re-executed %s, which `grog owners` + `grog rdeps -t` (%s) do not predict" % (
                fs, sorted(bad), res["allowed"]), rp)
        # an owner (selected by //...) must itself re-execute: otherwise the edit went unnoticed (C01/C02's subject; noted only)
        lab = {sl.label_of(nd): nd for nd in nodes}
        missed = {o for o in ref_owners if o not in ex2 and not sl.is_test_name(lab[o]["name"])}
        if missed:
            stats["owners_not_rebuilt"] = stats.get("owners_not_rebuilt", 0) + 1
    stats["rebuild_cases"] = len(cases)
    stats["rebuild_cases_with_reexecution"] = rebuilt_nonempty


def inprocess_tie(out, worlds, r, stats, findings):
    """GetAncestors / GetDescendants / GetDependencies / GetDependants as multisets of nodes (GetAncestors also as a
    list: its order is determined): Select.deps_t / rdeps_t / Graph.deps / Graph.dependants vs the real dag graph."""
    try:
        h = vlib.build_harness("select")
    except vlib.HarnessUnavailable as e:
        out.notes.append("inprocess_tie: unavailable (%s)" % str(e)[-500:])
        return False
    lines, meta = [], []
    for nodes, _ in worlds:
        en = sl.enc_nodes(nodes)
        for n in {r.below(len(nodes)), r.below(len(nodes)), len(nodes) - 1, 0}:
            for cmd in ("ancestors", "descendants", "direct"):
                lines.append("%s\t%s\t-\t%d" % (cmd, en, n)); meta.append((nodes, cmd, n))
    _, model, _ = vlib.run_lines(vlib.build_driver("select"), lines)
    rc, impl, err = vlib.run_lines(h, lines)
    if rc != 0 or len(impl) != len(lines) or len(model) != len(lines):
        raise RuntimeError("select harness/driver failed on traversal lines rc=%s %d/%d/%d %s" % (rc, len(impl), len(model), len(lines), err[-300:]))
    mism = 0
    for (nodes, cmd, n), a, m in zip(meta, impl, model):
        if a != m:
            # a known finding C20-F1 explains a node returned once per path: same set, duplicates on the implementation's side only
            ia, ma = a.split("\t"), m.split("\t")
            il, ml = sl.idxs(ia[1]) if len(ia) > 1 else [], sl.idxs(ma[1]) if len(ma) > 1 else []
            if cmd != "direct" and findings.get(DUP_CLASS) and ia[0] == "ms" and len(set(il)) < len(il) and sorted(set(il)) == ml:
                stats["inprocess_explained_by_known_duplicates"] = stats.get("inprocess_explained_by_known_duplicates", 0) + 1
            else:
                mism += 1
                if mism == 1:
                    first = (nodes, cmd, n, a, m)
        f = a.split("\t")
        if cmd != "direct" and f[0] == "ms":
            got = set(sl.idxs(f[1])) if len(f) > 1 else set()
            want = sl.strict_ancestors(nodes, n) if cmd == "ancestors" else sl.ref_rdeps(nodes, n)
            if got != want:
                out.violation("Get%s(%s) returns the node set %s, the graph says %s" % (
                    cmd.capitalize(), sl.label_of(nodes[n]), sorted(got), sorted(want)), {"nodes": nodes, "cmd": cmd, "n": n, "impl": a, "tie": "in-process"})
    if mism and not out.violations:
        nodes, cmd, n, a, m = first
        out.violation("correspondence Select.deps_t/rdeps_t/Graph.dependants ~ dag.GetAncestors/GetDescendants/GetDependants broke on "
                      "%d cases: %s %d: impl=%s model=%s; no oracle of C20 fails" % (mism, cmd, n, a[:200], m[:200]),
                      {"correspondence": "multiset of nodes returned by the traversal (and the order of GetAncestors)", "nodes": nodes, "cmd": cmd, "n": n,
                       "impl": a, "model": m}, no_input=True)
    stats["inprocess_traversals"] = len(lines)
    stats["inprocess_mismatches"] = mism
    return True


def run(out, tier):
    r = vlib.Rng(vlib.seed())
    findings = {f["class"]: f for f in vlib.known_findings("C20")}
    try:
        grog = vlib.build_grog()
    except vlib.HarnessUnavailable as e:
        out.violation("the grog binary does not build: the CLI tie of C20 cannot run (%s)" % str(e)[-300:], {"stderr": str(e)[-1500:]}, no_input=True)
        return
    nws = 60 if tier == "quick" else 600
    nq = 25
    base = os.path.join(vlib.scratch(), "c20")
    os.makedirs(base, exist_ok=True)
    worlds = []
    # the witness of the former refutation (C20-F1) first: the diamond (C20_diamond_printed), then a dependency that is
    # declared twice, asked for directly (C20_declared_twice_printed)
    dia = [{"kind": "t", "pkg": "a", "name": n, "tags": [], "plats": [], "bin": False, "deps": d, "inputs": []}
           for n, d in (("lib", []), ("x", [0]), ("y", [0]), ("t", [1, 2]))]
    cfg0 = {"cur": "", "pats": [], "pat_meaning": [], "tags": [], "excl": [], "type": "all", "plat": "linux/amd64", "all": False}
    worlds.append((dia, [{"kind": "deps", "cfg": cfg0, "n": 3, "t": True, "relative": False},
                         {"kind": "rdeps", "cfg": cfg0, "n": 0, "t": True, "relative": False}]))
    twice = [{"kind": "t", "pkg": "a", "name": n, "tags": [], "plats": [], "bin": False, "deps": d, "inputs": []}
             for n, d in (("lib", []), ("t", [0, 0]))]
    worlds.append((twice, [{"kind": "deps", "cfg": cfg0, "n": 1, "t": False, "relative": False},
                           {"kind": "rdeps", "cfg": cfg0, "n": 0, "t": False, "relative": False},
                           {"kind": "deps", "cfg": cfg0, "n": 1, "t": True, "relative": False}]))
    # the instance of C20_alias_filtered_printed (finding C20-F2 before its repair): //:tagged -> alias //:al -> //:plain
    alw = [{"kind": k, "pkg": "", "name": n, "tags": t, "plats": [], "bin": False, "deps": d, "inputs": []}
           for k, n, t, d in (("t", "plain", [], []), ("a", "al", [], [0]), ("t", "tagged", ["x"], [1]))]
    cfg_all = dict(cfg0, pats=["//..."], pat_meaning=[("//...", lambda cur: ("", "", True))], tags=["x"])
    worlds.append((alw, [{"kind": "deps", "cfg": dict(cfg0, tags=["x"]), "n": 2, "t": True, "relative": False},
                         {"kind": "deps", "cfg": cfg0, "n": 2, "t": True, "relative": False},
                         {"kind": "rdeps", "cfg": dict(cfg0, excl=["x"]), "n": 0, "t": True, "relative": False},
                         {"kind": "deps", "cfg": dict(cfg0, type="test"), "n": 2, "t": False, "relative": False},
                         {"kind": "list", "cfg": cfg_all}]))
    # the instance of C20_owners_spelled_nonvacuous / C20_owners_verbatim_refuted: four non-canonical spellings and a canonical one,
    # asked for with canonical and with respelled arguments, from the root and from the package
    spw = [{"kind": "t", "pkg": "a", "name": n, "tags": [], "plats": [], "bin": False, "deps": [], "inputs": [c], "spelled": [sp]}
           for n, c, sp in (("t4", "sub/f3.txt", "sub/./f3.txt"), ("t1", "f1.txt", "./f1.txt"), ("t5", "f1.txt", "f1.txt"),
                            ("t3", "sub/f3.txt", "sub//f3.txt"), ("t2", "f1.txt", "zz/../f1.txt"))]
    spf = [("a", "f1.txt"), ("a", "sub/f3.txt")]
    worlds.append((spw, [{"kind": "owners", "cfg": cfg0, "files": spf, "from_pkg": False, "args": ["a/f1.txt", "a/sub/f3.txt"]},
                         {"kind": "owners", "cfg": cfg0, "files": spf, "from_pkg": False, "args": ["./a//f1.txt", "a/x/../sub/./f3.txt"]},
                         {"kind": "owners", "cfg": cfg0, "files": spf, "from_pkg": True, "args": ["./f1.txt", "x/../sub//f3.txt"]}]))
    for _ in range(nws):
        nodes = sl.gen_world(r, nmax=10, files=True, spell=True)
        worlds.append((nodes, gen_queries(r, nodes, nq)))
    jobs = []
    for wi, (nodes, qs) in enumerate(worlds):
        ws = os.path.join(base, "ws%d" % wi)
        sl.render_workspace(nodes, ws, r=r)
        for q in qs:
            jobs.append((wi, q))
    env = sl.grog_env(os.path.join(base, "root"))
    drv = vlib.build_driver("select")
    rc, model, err = vlib.run_lines(drv, [model_line(worlds[wi][0], q) for wi, q in jobs])
    if rc != 0 or len(model) != len(jobs):
        raise RuntimeError("select model driver failed on query lines rc=%s %d/%d %s" % (rc, len(model), len(jobs), err[-300:]))
    with ThreadPoolExecutor(max_workers=24) as ex:
        results = list(ex.map(lambda j: run_query(grog, os.path.join(base, "ws%d" % j[0]), env, worlds[j[0]][0], j[1]), jobs))
    stats = {"dup": 0, "alias": 0, "model_mismatch": 0, "inverse_pairs": 0, "by_kind": Counter()}
    spelling_stats(drv, worlds, jobs, model, stats)
    budget = [4]
    nontriv = set()
    samples = []
    for (wi, q), res, m in zip(jobs, results, model):
        nodes = worlds[wi][0]
        stats["by_kind"][q["kind"] + ("-t" if q.get("t") else "")] += 1
        check_query(out, nodes, q, res, m, findings, stats, budget)
        if res["lines"]:
            nontriv.add((wi, " ".join(res["args"]), res["cwd"]))
        if len(samples) < 3 and len(res["lines"]) > 2:
            samples.append({"cmd": "grog " + " ".join(res["args"]), "cwd_package": res["cwd"], "stdout": res["lines"], "model": m[:300]})
    if stats["model_mismatch"] and not [v for v in out.violations if not v["no_input"]]:
        rp = stats.pop("first_mismatch")
        out.violation("correspondence Select.deps_query/rdeps_query/owners/list_query ~ grog query commands broke on %d queries, e.g. `%s` prints %s, "
                      "model %s; no oracle of C20 fails" % (stats["model_mismatch"], rp["cmd"], rp["stdout"], rp["model"]),
                      dict(rp, correspondence="Select.v queries vs grog deps/rdeps/owners/list stdout (multiset of lines)"), no_input=True)
    stats.pop("first_mismatch", None)
    for wi in range(2, min(len(worlds), 14 if tier == "quick" else 81)):
        inverse_check(out, grog, os.path.join(base, "ws%d" % wi), env, worlds[wi][0], r, stats, budget)
    rebuild_prediction(out, grog, r, tier, stats)
    inproc = inprocess_tie(out, worlds, r, stats, findings)
    stats["by_kind"] = dict(stats["by_kind"])
    out.cov.update({
        "evaluations": len(jobs) + stats["inverse_pairs"] + stats.get("rebuild_cases", 0) + stats.get("inprocess_traversals", 0),
        "distinct_nontrivial": len(nontriv),
        "rule": "%d generated workspaces (1-10 nodes, packages {'', a, a/b, ab}, aliases incl. chains, tags, platforms, bin outputs, input "
                "files two in three spelled ./f, zz/../f, d//f, d/./f, duplicate dependency entries) x %d queries (deps/rdeps with and without "
                "-t, --target-type, tags, platform; owners with 1-2 files from the root or a package directory, one argument in two spelled "
                "./p/f, p//f, p/x/../f, p/./f; list with 0-3 patterns); non-trivial = the command prints at least one "
                "label; distinct = distinct (workspace, command line, cwd)" % (nws, nq),
        "samples": samples,
        "traces_validated_against_impl": len(jobs),
        "input_distribution": stats,
        "cli_tie": {"available": True, "queries": len(jobs)},
        "inprocess_tie": inproc,
    })
    out.assumptions += [
        "literal inputs and `owners` arguments are spelled arbitrarily ('.', '..', doubled slashes) but do not climb above the workspace "
        "root (guard stays_inside of C20_owners_abs_is_owners_partial, evaluated on every generated input and argument: "
        "input_distribution.guard_stays_inside_violated; inputs cannot leave their package: analysis.checkInputPathsRelative); no globs; "
        "the model receives the inputs as written in the BUILD file and the arguments as typed, with the current package in front",
        "the tag/exclude-tag/type/platform options are filters on the printed set; an alias stands for the target it resolves to",
        "rebuild prediction is exercised with `grog build --all-platforms //...` on workspaces without platform selectors and outputs; "
        "the formal statement C20_rebuild_predicted needs the build model (Build.v) and is not part of this file",
    ]


def replay(out, path):
    rp = json.load(open(path))["replay"]
    grog = vlib.build_grog()
    base = os.path.join(vlib.scratch(), "c20replay")
    os.makedirs(base, exist_ok=True)
    findings = {f["class"]: f for f in vlib.known_findings("C20")}
    if "query" in rp:
        nodes, q = rp["nodes"], dict(rp["query"])
        import c12
        q["cfg"] = c12.rebuild_cfg(nodes, q["cfg"])
        if "files" in q:
            q["files"] = [tuple(x) for x in q["files"]]
        ws = os.path.join(base, "ws")
        sl.render_workspace(nodes, ws)
        res = run_query(grog, ws, sl.grog_env(os.path.join(base, "root")), nodes, q)
        _, m, _ = vlib.run_lines(vlib.build_driver("select"), [model_line(nodes, q)])
        print("grog", " ".join(res["args"]), "(cwd //%s) ->" % res["cwd"], res["lines"], "exit", res["exit"])
        print("model:", m[0])
        print("reference:", sorted(reference(nodes, q)[0]))
        stats = {"dup": 0, "alias": 0, "model_mismatch": 0}
        check_query(out, nodes, q, res, m[0], findings, stats, [3])
        if stats["model_mismatch"] and not out.violations:
            out.violation("replay: stdout and model still differ as multisets", rp, no_input=True)
    elif "edited_file" in rp:
        f = rp["edited_file"]
        cands = [(nd["pkg"], i) for nd in rp["nodes"] for i in nd["inputs"] if ws_rel(nd["pkg"], i) == f]
        res = rebuild_case(grog, base, 0, rp["nodes"], cands[0])
        print(json.dumps(res, indent=1)[:3000])
        nocache = {sl.label_of(nd) for nd in rp["nodes"] if "no-cache" in nd["tags"]}
        bad = set(res["trace2"]) - set(res["allowed"]) - nocache
        if bad:
            out.violation("replay: second build re-executed %s, not predicted by owners/rdeps %s" % (sorted(bad), res["allowed"]), rp)
    else:
        print("nothing to replay in", path)
