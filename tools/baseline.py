#!/usr/bin/env python3
"""baseline.py [tree]   run the pinned suite on a tree (default /repo) and report which BASELINE.json stable_pass tests did not pass."""
import json, sys
sys.path.insert(0, "/verif/tools")
import seed_verify
wt = sys.argv[1] if len(sys.argv) > 1 else "/repo"
base = json.load(open("/root/.vp/BASELINE.json"))["stable_pass"]
passed = seed_verify.passing_tests(wt)
missing = [t for t in base if t not in passed]
print("baseline %d/%d passing" % (len(base) - len(missing), len(base)))
for t in missing:
    print("MISSING", t)
sys.exit(1 if missing else 0)
