"""C15 -- load_outputs=minimal is observationally equivalent for what gets built.
Tie: every generated history is run twice in lock-step on the real binary (mode all vs mode minimal,
separate caches and workspaces) and through Build.v in both modes; the two runs are compared with each
other (model-free) and each with the model."""
import copy, json, os, shutil
import vlib, buildlib as bl, histcheck as hc

GUARDS = [("minimal-reruns-nocache-dependency", hc.g_no_nocache)]


def script(features, r):
    """A mode-independent list of steps, applied identically to both runs."""
    steps = [("src", bl.gen_snapshot(r, features=features), "initial"), ("build",), ("build",)]
    snap = steps[0][1]
    for _ in range(3):
        kind = r.choice(["edit", "edit", "wipe", "taint", "fault-blob", "fault-results"])
        if kind == "fault-blob":
            # cache fault while dependency outputs are being loaded: a blob is lost, the outputs are wiped (fresh checkout),
            # some target is edited so that its dependants' commands have to run and need the lost output re-made
            steps.append(("dropblob", r.below(1000)))
            steps.append(("wipe", r.below(1000)))
            snap, why = bl.edit_snapshot(r, snap)
            steps.append(("src", snap, why))
        elif kind == "fault-results":
            steps.append(("dropresults",))
            steps.append(("wipe", r.below(1000)))
        elif kind == "edit":
            snap, why = bl.edit_snapshot(r, snap)
            steps.append(("src", snap, why))
        elif kind == "wipe":
            steps.append(("wipe", r.below(1000)))
        else:
            tis = [i for i, n in enumerate(snap["nodes"]) if n["k"] == "t"]
            steps.append(("taint", r.sample(tis, 1)))
        steps.append(("build",))
    return steps


def apply(h, steps, mode):
    cfg = {"mode": mode, "cache": True}
    for st in steps:
        if st[0] == "src":
            h.set_sources(st[1], st[2])
        elif st[0] == "build":
            h.build(cfg)
        elif st[0] == "taint":
            h.taint(st[1])
        elif st[0] == "dropresults":
            h.drop_results()
        elif st[0] == "dropblob-of":
            h.drop_blob(st[1], st[2])
        elif st[0] == "wipe-all":
            for i, n in enumerate(h.snap["nodes"]):
                if n["k"] == "t":
                    for k in range(len(n["outs"])):
                        h.perturb(i, k, "delete")
        elif st[0] == "dropblob":
            rr = vlib.Rng(st[1])
            cands = [(i, k) for i, n in enumerate(h.snap["nodes"]) if n["k"] == "t" for k, o in enumerate(n["outs"]) if o[0] == "file"]
            if cands:
                i, k = rr.choice(cands)
                h.drop_blob(i, k)
        elif st[0] == "wipe":
            # every output is deleted (a fresh checkout): minimal mode must still give each executing command its dependency outputs
            rr = vlib.Rng(st[1])
            for i, n in enumerate(h.snap["nodes"]):
                if n["k"] == "t":
                    for k in range(len(n["outs"])):
                        if rr.chance(2, 3):
                            h.perturb(i, k, "delete")


def sub_multiset(xs, ys):
    ys = list(ys)
    for x in xs:
        if x in ys:
            ys.remove(x)
        else:
            return False
    return True


def run(out, tier):
    n = 22 if tier == "quick" else 500
    r = vlib.Rng(vlib.seed() * 7919 + 15)
    scripts = []
    clean = dict(hc.CLEAN)
    full = dict(hc.FULL); full["nocache"] = True
    for k in range(n):
        scripts.append(("clean", script(clean, r)))
    for k in range(n):
        scripts.append(("full", script(full, r)))
    # cache fault while dependency outputs are being loaded, on purpose: c depends on [a, b] (and [b, a]); everything is built and
    # cached; the blob of ONE dependency is lost; the workspace is wiped; c's command changes so that it has to run: both modes have
    # to re-make the lost output AND put the other dependency's output in place before c's command starts
    def T(name, deps, salt="v0"):
        return {"k": "t", "pkg": "p", "name": name, "salt": salt, "ins": [], "glob": None, "excl": [], "outs": [("file", name + ".txt")],
                "deps": deps, "fp": {}, "nocache": False, "multi": False, "beh": "n", "check": False, "comment": ""}
    for order in ([0, 1], [1, 0]):
        for lost in (0, 1):
            s1 = {"nodes": [T("a", []), T("b", []), T("c", order)], "files": {}}
            s2 = {"nodes": [T("a", []), T("b", []), T("c", order, "v1")], "files": {}}
            scripts.append(("witness-fault", [("src", s1, "initial"), ("build",), ("dropblob-of", lost, 0), ("wipe-all",),
                                              ("src", s2, "command (output-relevant) of //p:c"), ("build",), ("build",)]))
    plans = []
    for name, steps in scripts:
        for mode in ("all", "min"):
            plans.append(("%s-%s" % (name, mode), (lambda steps=steps, mode=mode: (lambda h, rr: (apply(h, steps, mode), [])[1]))()))
    batch = hc.run_batch(plans, vlib.seed())
    hc.check_plan_errors(batch)
    findings = {f["class"]: f for f in vlib.known_findings("C15")}
    evals = 0
    for k in range(0, len(batch), 2):
        (na, ha, _, ma), (nm, hm, _, mm) = batch[k], batch[k + 1]
        # builds that follow a cache fault: mode all has to re-execute every selected target whose outputs it cannot restore,
        # mode minimal only those an executing dependant needs -- "the same set of commands" is then demanded as
        # minimal's commands being a sub-multiset of all's (exit status and materialised bytes compared as always)
        faulted, seen = [], False
        for o in hm.ops:
            if o[0] in ("D", "R"):
                seen = True
            elif o[0] == "B":
                faulted.append(seen)
        for bi, (a, b) in enumerate(zip(ha.builds, hm.builds)):
            evals += 1
            predicted = bi < len(mm) and sorted(b["starts"]) == mm[bi]["exec"] and (b["rc"] == 0) == mm[bi]["ok"]
            if (a["rc"] == 0) != (b["rc"] == 0):
                hc.decide(out, "C15", findings, hm, "build %d: mode all exits %s, mode minimal exits %s (%s)" % (bi, a["rc"], b["rc"], b["stderr"][-200:]),
                          predicted, GUARDS)
            elif bi < len(faulted) and faulted[bi] and sub_multiset(b["starts"], a["starts"]):
                pass
            elif sorted(a["starts"]) != sorted(b["starts"]):
                hc.decide(out, "C15", findings, hm, "build %d executes %s under all but %s under minimal" % (bi, sorted(a["starts"]), sorted(b["starts"])),
                          predicted, GUARDS)
            else:
                for p, s in b["ws"].items():
                    if s.startswith("F") and a["ws"].get(p, "A").startswith("F") and s != a["ws"][p]:
                        hc.decide(out, "C15", findings, hm, "build %d: output %s materialised under minimal differs from mode all" % (bi, p), predicted, GUARDS)
                        break
    hc.finish(out, "C15", batch,
              "scripts of edits, taints and wipes of the workspace outputs (fresh checkout) with a build after each, applied identically to two "
              "runs (load_outputs=all and =minimal, separate cache roots and workspaces); compared pairwise and with Build.run_history in both "
              "modes; non-trivial = at least two operations and two builds", oracle_evals=evals, extra={"lockstep_pairs": len(batch) // 2})


def replay(out, path):
    rp = json.load(open(path))["replay"]
    print(json.dumps(rp.get("description"), indent=1)); print(json.dumps(rp.get("observed"), indent=1)[:3000])
