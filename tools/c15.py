"""C15 -- load_outputs=minimal is observationally equivalent for what gets built.
Tie: every generated history is run twice in lock-step on the real binary (mode all vs mode minimal,
separate caches and workspaces) and through Build.v in both modes; the two runs are compared with each
other (model-free) and each with the model."""
import copy, json, os, shutil
import vlib, buildlib as bl, histcheck as hc
import c15_depload

GUARDS = [("minimal-reruns-nocache-dependency", hc.g_no_nocache)]


def script(features, r):
    """A mode-independent list of steps, applied identically to both runs."""
    steps = [("src", bl.gen_snapshot(r, features=features), "initial"), ("build",), ("build",)]
    snap = steps[0][1]
    for _ in range(3):
        kind = r.choice(["edit", "edit", "wipe", "taint", "fault-blob", "fault-results"])
        if kind == "fault-blob":
            # cache fault while dependency outputs are being loaded: a blob is lost, the outputs are wiped (fresh checkout),
            # some target is edited so that its dependants' commands have to run and need the lost output re-made
            steps.append(("dropblob", r.below(1000)))
            steps.append(("wipe", r.below(1000)))
            snap, why = bl.edit_snapshot(r, snap)
            steps.append(("src", snap, why))
        elif kind == "fault-results":
            steps.append(("dropresults",))
            steps.append(("wipe", r.below(1000)))
        elif kind == "edit":
            snap, why = bl.edit_snapshot(r, snap)
            steps.append(("src", snap, why))
        elif kind == "wipe":
            steps.append(("wipe", r.below(1000)))
        else:
            tis = [i for i, n in enumerate(snap["nodes"]) if n["k"] == "t"]
            steps.append(("taint", r.sample(tis, 1)))
        steps.append(("build",))
    return steps


def apply(h, steps, mode):
    cfg = {"mode": mode, "cache": True}
    for st in steps:
        if st[0] == "src":
            h.set_sources(st[1], st[2])
        elif st[0] == "build":
            h.build(cfg)
        elif st[0] == "taint":
            h.taint(st[1])
        elif st[0] == "dropresults":
            h.drop_results()
        elif st[0] == "dropblob-of":
            h.drop_blob(st[1], st[2])
        elif st[0] == "wipe-all":
            for i, n in enumerate(h.snap["nodes"]):
                if n["k"] == "t":
                    for k in range(len(n["outs"])):
                        h.perturb(i, k, "delete")
        elif st[0] == "dropblob":
            rr = vlib.Rng(st[1])
            cands = [(i, k) for i, n in enumerate(h.snap["nodes"]) if n["k"] == "t" for k, o in enumerate(n["outs"]) if o[0] in ("file", "dir")]
            if cands:
                i, k = rr.choice(cands)
                h.drop_blob(i, k)
        elif st[0] == "wipe":
            # every output is deleted (a fresh checkout): minimal mode must still give each executing command its dependency outputs
            # mostly deleted; one time in four something of the wrong kind sits at the path instead (a directory with content where a
            # file belongs, a file where a directory belongs): an ordinary perturbation since the repair of C06-F3.  (The kind is
            # drawn from a generator of its own so that which paths are wiped does not depend on it.)
            rr = vlib.Rng(st[1])
            rk = vlib.Rng(st[1] ^ 0x5C06F3)
            for i, n in enumerate(h.snap["nodes"]):
                if n["k"] == "t":
                    for k in range(len(n["outs"])):
                        if rr.chance(2, 3):
                            h.perturb(i, k, "wrong_kind" if rk.chance(1, 4) else "delete")


def sub_multiset(xs, ys):
    ys = list(ys)
    for x in xs:
        if x in ys:
            ys.remove(x)
        else:
            return False
    return True


def witness_concurrent_rerun(out, findings):
    """Model-free lock-step witness for the fault clause of C15 ("cache faults while dependency outputs are being loaded"; the
    defect it demonstrated, C15-F1, is repaired: LoadDependencyOutputs works on a dependency under a per-dependency lock):
    dependency //:x (slow, writes its output in two steps) is a cache hit whose blob is lost; its dependants d1 and d2 were edited
    and have to run; d2 also waits for a second dependency y, so it becomes ready a little after d1.  Under `all` x is re-made
    once at its own node.  Under `minimal` each dependant finds x unrestorable: if BOTH re-make it, the two runs of x's command
    interleave on x.txt, a dependant reads a torn file, and the torn bytes are cached.  Oracle: every declared output has the bytes
    of the mode-all run (= the from-scratch bytes), and x's command ran once."""
    import os, shutil, subprocess
    grog = vlib.build_grog()
    base = os.path.join(vlib.scratch(), "concrerun")
    shutil.rmtree(base, ignore_errors=True)
    obs = {}
    for mode in ("all", "minimal"):
        d = os.path.join(base, mode)
        ws, root = os.path.join(d, "ws"), os.path.join(d, "root")
        os.makedirs(ws); os.makedirs(root)
        json.dump({"targets": [
            {"name": "x", "inputs": ["x.in"], "outputs": ["x.txt"],
             "command": 'echo x >> "$CMDLOG"; rm -f x.txt; sleep 0.3; printf part1- > x.txt; sleep 0.3; cat x.in >> x.txt'},
            {"name": "y", "inputs": ["y.in"], "outputs": ["y.txt"], "command": 'echo y >> "$CMDLOG"; sleep 0.15; cp y.in y.txt'},
            {"name": "d1", "inputs": ["d1.in"], "dependencies": [":x"], "outputs": ["d1.txt"], "command": 'echo d1 >> "$CMDLOG"; cat x.txt d1.in > d1.txt'},
            {"name": "d2", "inputs": ["d2.in"], "dependencies": [":x", ":y"], "outputs": ["d2.txt"],
             "command": 'echo d2 >> "$CMDLOG"; cat x.txt y.txt d2.in > d2.txt'}]}, open(os.path.join(ws, "BUILD.json"), "w"))
        open(os.path.join(ws, "grog.toml"), "w").write('load_outputs = "%s"\nnum_workers = 4\n' % mode)
        xin = "content-of-x-long-enough-to-be-found-in-the-cas\n"
        for f, c in (("x.in", xin), ("y.in", "y1\n"), ("d1.in", "v1\n"), ("d2.in", "v1\n")):
            open(os.path.join(ws, f), "w").write(c)
        env = bl.grog_env(root, os.path.join(d, "trace"), {"CMDLOG": os.path.join(d, "cmd.log")})
        env.pop("GROG_NUM_WORKERS", None)
        run1 = lambda: subprocess.run([grog, "build"], cwd=ws, env=env, stdout=subprocess.PIPE, stderr=subprocess.PIPE, text=True, timeout=120)
        p1 = run1()
        for f in ("x.txt", "y.txt", "d1.txt", "d2.txt"):
            if os.path.exists(os.path.join(ws, f)):
                os.unlink(os.path.join(ws, f))
        for f, c in (("y.in", "y2\n"), ("d1.in", "v2\n"), ("d2.in", "v2\n")):
            open(os.path.join(ws, f), "w").write(c)
        lost = 0
        for dp, dn, fn in os.walk(root):
            if os.path.basename(dp) == "cas":
                for f in fn:
                    q = os.path.join(dp, f)
                    if open(q, errors="replace").read() == "part1-" + xin:
                        os.unlink(q); lost += 1
        open(os.path.join(d, "cmd.log"), "w").close()
        p2 = run1()
        rd = lambda f: open(os.path.join(ws, f)).read() if os.path.exists(os.path.join(ws, f)) else None
        obs[mode] = {"rc1": p1.returncode, "rc2": p2.returncode, "blobs_lost": lost, "commands": open(os.path.join(d, "cmd.log")).read().split(),
                     "outputs": {f: rd(f) for f in ("x.txt", "y.txt", "d1.txt", "d2.txt")}}
    shutil.rmtree(base, ignore_errors=True)
    a, m = obs["all"], obs["minimal"]
    desc = {"targets": "x (slow, two-step write) <- d1; x, y <- d2", "history": "build; remove all outputs; edit y.in, d1.in, d2.in; delete the CAS blob "
            "of x.txt; build (num_workers 4)", "observed": obs}
    if a["rc1"] or m["rc1"] or a["blobs_lost"] != 1 or m["blobs_lost"] != 1 or a["rc2"] != 0:
        out.violation("concurrent-rerun witness: set-up failed: %s" % {k: (v["rc1"], v["rc2"], v["blobs_lost"]) for k, v in obs.items()}, desc, no_input=True)
        return 1
    what = None
    if m["rc2"] != a["rc2"]:
        what = "mode all exits %s, mode minimal exits %s" % (a["rc2"], m["rc2"])
    elif m["outputs"] != a["outputs"]:
        bad = sorted(f for f in a["outputs"] if a["outputs"][f] != m["outputs"][f])
        what = "outputs %s materialised under minimal differ from mode all (%r vs %r)" % (bad, m["outputs"][bad[0]], a["outputs"][bad[0]])
    if what:
        what = ("a dependency whose blob is lost is re-made by two dependants at the same time under load_outputs=minimal (its command ran %d "
                "times, interleaved): %s" % (m["commands"].count("x"), what))
        f = findings.get("concurrent-dependency-rerun")
        if f:
            out.known(f["id"], what)
        else:
            out.violation(what, desc)
    return 1


def witness_rerun_timeout(out):
    """Model-free lock-step witness: a dependency with `timeout: 1s` is cached by a fast run; then its blob is lost, its outputs are
    removed, a marker (not an input) makes its command slow (3 s) and its dependant is edited.  Under `all` the dependency is re-made
    at its own node and fails with the timeout; under `minimal` it is re-made inside the dependant's task: the SAME deadline must
    apply there -- both modes fail, nothing of the overlong run is cached."""
    import os, shutil, subprocess
    grog = vlib.build_grog()
    base = os.path.join(vlib.scratch(), "reruntimeout")
    shutil.rmtree(base, ignore_errors=True)
    obs = {}
    for mode in ("all", "minimal"):
        d = os.path.join(base, mode)
        ws, root = os.path.join(d, "ws"), os.path.join(d, "root")
        os.makedirs(ws); os.makedirs(root)
        json.dump({"targets": [
            {"name": "dep", "inputs": ["dep.in"], "outputs": ["dep.txt"], "timeout": "1s",
             "command": 'echo dep >> "$CMDLOG"; if [ -f "$SLOWFLAG" ]; then sleep 3; fi; cp dep.in dep.txt'},
            {"name": "use", "inputs": ["use.in"], "dependencies": [":dep"], "outputs": ["use.txt"],
             "command": 'echo use >> "$CMDLOG"; cat dep.txt use.in > use.txt'}]}, open(os.path.join(ws, "BUILD.json"), "w"))
        open(os.path.join(ws, "grog.toml"), "w").write('load_outputs = "%s"\nnum_workers = 2\n' % mode)
        depin = "content-of-dep-long-enough-to-be-found-in-the-cas\n"
        open(os.path.join(ws, "dep.in"), "w").write(depin); open(os.path.join(ws, "use.in"), "w").write("v1\n")
        flag = os.path.join(d, "slow.flag")
        env = bl.grog_env(root, os.path.join(d, "trace"), {"CMDLOG": os.path.join(d, "cmd.log"), "SLOWFLAG": flag})
        env.pop("GROG_NUM_WORKERS", None)
        run1 = lambda: subprocess.run([grog, "build"], cwd=ws, env=env, stdout=subprocess.PIPE, stderr=subprocess.PIPE, text=True, timeout=120)
        p1 = run1()
        for f in ("dep.txt", "use.txt"):
            if os.path.exists(os.path.join(ws, f)):
                os.unlink(os.path.join(ws, f))
        open(os.path.join(ws, "use.in"), "w").write("v2\n")
        open(flag, "w").close()
        lost = 0
        for dp, dn, fn in os.walk(root):
            if os.path.basename(dp) == "cas":
                for f in fn:
                    q = os.path.join(dp, f)
                    if open(q, errors="replace").read() == depin:
                        os.unlink(q); lost += 1
        open(os.path.join(d, "cmd.log"), "w").close()
        p2 = run1()
        p3 = run1()
        obs[mode] = {"rc1": p1.returncode, "rc2": p2.returncode, "rc3": p3.returncode, "blobs_lost": lost,
                     "commands_build2": open(os.path.join(d, "cmd.log")).read().split(), "out2": (p2.stdout + p2.stderr)[-300:]}
    shutil.rmtree(base, ignore_errors=True)
    a, m = obs["all"], obs["minimal"]
    desc = {"targets": "dep (timeout 1s; slow when a marker file exists) <- use", "history": "build; remove outputs; edit use.in; create the marker; delete the "
            "CAS blob of dep.txt; build; build", "observed": obs}
    if a["rc1"] or m["rc1"] or a["blobs_lost"] != 1 or m["blobs_lost"] != 1:
        out.violation("rerun-timeout witness: set-up failed: %s" % {k: (v["rc1"], v["blobs_lost"]) for k, v in obs.items()}, desc, no_input=True)
    elif a["rc2"] == 0:
        out.violation("mode all: a dependency whose re-execution exceeds its timeout (3 s against 1 s) does not fail the build", desc)
    elif m["rc2"] == 0 or m["rc3"] == 0:
        out.violation("under load_outputs=minimal a dependency re-made inside its dependant's task runs without its timeout (3 s against 1 s): "
                      "mode all exits %s/%s, mode minimal exits %s/%s" % (a["rc2"], a["rc3"], m["rc2"], m["rc3"]), desc)
    return 1


def witness_rerun_fails(out):
    """Model-free lock-step witness (the generator's commands are idempotent, so Build.v cannot express it): dependency //:a is a
    cache hit whose blob is lost; its dependants were edited and have to run; the command of //:a cannot be re-run (it refuses to
    run twice in one checkout).  Both modes must end the same way: //:a fails, no dependant's command starts, exit non-zero --
    in particular, under minimal, a dependant must never run without the output of //:a because ANOTHER dependant's attempt to
    re-make it already failed."""
    import os, shutil, subprocess
    grog = vlib.build_grog()
    base = os.path.join(vlib.scratch(), "rerunfails")
    shutil.rmtree(base, ignore_errors=True)
    evals = 0
    for ndep, workers, kind in ((2, 2, "file"), (3, 1, "file"), (2, 2, "dir"), (1, 1, "file"), (3, 4, "dir")):
        obs = {}
        for mode in ("all", "minimal"):
            d = os.path.join(base, "%d-%d-%s-%s" % (ndep, workers, kind, mode))
            ws, root = os.path.join(d, "ws"), os.path.join(d, "root")
            os.makedirs(ws); os.makedirs(root)
            open(os.path.join(ws, "grog.toml"), "w").write('load_outputs = "%s"\nnum_workers = %d\n' % (mode, workers))
            out_a = "dir::gen" if kind == "dir" else "a.txt"
            path_a = "gen/a.txt" if kind == "dir" else "a.txt"
            mk_a = ("mkdir gen && cp a.in gen/a.txt" if kind == "dir" else "test ! -e ran.flag || exit 7; touch ran.flag; cp a.in a.txt")
            targets = [{"name": "a", "inputs": ["a.in"], "outputs": [out_a], "command": 'echo a >> "$CMDLOG"; ' + mk_a}]
            for k in range(ndep):
                targets.append({"name": "b%d" % k, "inputs": ["b%d.in" % k], "dependencies": [":a"], "outputs": ["b%d.txt" % k],
                                "command": 'echo b%d >> "$CMDLOG"; test -f %s || echo b%d >> "$MISSLOG"; cat %s b%d.in > b%d.txt' % (k, path_a, k, path_a, k, k)})
            json.dump({"targets": targets}, open(os.path.join(ws, "BUILD.json"), "w"))
            content = "content of a, long enough to be found again in the cas\n"
            open(os.path.join(ws, "a.in"), "w").write(content)
            for k in range(ndep):
                open(os.path.join(ws, "b%d.in" % k), "w").write("v1\n")
            env = bl.grog_env(root, os.path.join(d, "trace"), {"CMDLOG": os.path.join(d, "cmd.log"), "MISSLOG": os.path.join(d, "miss.log")})
            env.pop("GROG_NUM_WORKERS", None)
            run1 = lambda: subprocess.run([grog, "build"], cwd=ws, env=env, stdout=subprocess.PIPE, stderr=subprocess.PIPE, text=True, timeout=120)
            p1 = run1()
            # fresh checkout of the outputs, both leaves edited, the cache loses the blob of a's file
            shutil.rmtree(os.path.join(ws, "gen"), ignore_errors=True)
            for f in ["a.txt"] + ["b%d.txt" % k for k in range(ndep)]:
                if os.path.exists(os.path.join(ws, f)):
                    os.unlink(os.path.join(ws, f))
            for k in range(ndep):
                open(os.path.join(ws, "b%d.in" % k), "w").write("v2\n")
            lost = 0
            for dp, dn, fn in os.walk(root):
                if os.path.basename(dp) == "cas":
                    for f in fn:
                        q = os.path.join(dp, f)
                        if os.path.getsize(q) == len(content) and open(q).read() == content:
                            os.unlink(q); lost += 1
            for f in ("cmd.log", "miss.log"):
                open(os.path.join(d, f), "w").close()
            p2 = run1()
            rd = lambda f: sorted(set(open(os.path.join(d, f)).read().split()))
            obs[mode] = {"rc1": p1.returncode, "rc2": p2.returncode, "executed": rd("cmd.log"), "ran_without_dependency_output": rd("miss.log"),
                         "blobs_lost": lost, "out2": (p2.stdout + p2.stderr)[-400:]}
        evals += 1
        a, m = obs["all"], obs["minimal"]
        desc = {"targets": "//:a (%s output, command refuses to run a second time in one checkout) <- %d dependants" % (kind, ndep), "num_workers": workers,
                "history": "build; remove every output from the workspace; edit every dependant's input; delete the CAS blob of a's file; build",
                "observed": obs}
        if a["rc1"] or m["rc1"] or a["blobs_lost"] != 1 or m["blobs_lost"] != 1:
            out.violation("rerun-fails witness: set-up failed (first build rc %s/%s, blobs lost %s/%s)" % (a["rc1"], m["rc1"], a["blobs_lost"], m["blobs_lost"]),
                          desc, no_input=True)
        elif (a["rc2"] == 0) != (m["rc2"] == 0):
            out.violation("a dependency that cannot be restored nor re-made: mode all exits %s, mode minimal exits %s" % (a["rc2"], m["rc2"]), desc)
        elif not set(m["executed"]) <= set(a["executed"]):
            out.violation("a dependency that cannot be restored nor re-made: mode all runs the commands %s, mode minimal %s" % (a["executed"], m["executed"]), desc)
        elif set(m["ran_without_dependency_output"]) - set(a["ran_without_dependency_output"]):
            out.violation("under load_outputs=minimal the commands of %s ran without the output of their dependency //:a" % m["ran_without_dependency_output"], desc)
    shutil.rmtree(base, ignore_errors=True)
    return evals


def depload_stage(out, tier):
    """Concurrency of dependency loading (Build.v is sequential): k dependants of one cache-hit dependency race on loading its
    outputs, also while some of its blobs are lost or its target result cannot be read and it has to be re-made (exactly once).  Deterministic schedules on the real
    Executor/Registry (harness/go/depload) against coq/theories/DepLoad.v, see tools/c15_depload.py.  Runs first: its violations
    carry a failing schedule and are listed first."""
    return c15_depload.stage(out, tier)


def run(out, tier):
    dl = depload_stage(out, tier)
    n = 22 if tier == "quick" else 500
    r = vlib.Rng(vlib.seed() * 7919 + 15)
    scripts = []
    clean = dict(hc.CLEAN)
    full = dict(hc.FULL); full["nocache"] = True
    for k in range(n):
        scripts.append(("clean", script(clean, r)))
    for k in range(n):
        scripts.append(("full", script(full, r)))
    # cache fault while dependency outputs are being loaded, on purpose: c depends on [a, b] (and [b, a]); everything is built and
    # cached; the blob of ONE dependency is lost; the workspace is wiped; c's command changes so that it has to run: both modes have
    # to re-make the lost output AND put the other dependency's output in place before c's command starts
    def T(name, deps, salt="v0", kind="file"):
        return {"k": "t", "pkg": "p", "name": name, "salt": salt, "ins": [], "glob": None, "excl": [],
                "outs": [("file", name + ".txt")] if kind == "file" else [("dir", name + "_d")],
                "deps": deps, "fp": {}, "nocache": False, "multi": False, "beh": "n", "check": False, "comment": ""}
    # ... the lost blob being that of a FILE output, or of the file INSIDE a directory output (the tree blob is still there)
    for kind in ("file", "dir"):
        for order in ([0, 1], [1, 0]):
            for lost in (0, 1):
                s1 = {"nodes": [T("a", [], kind=kind), T("b", [], kind=kind), T("c", order)], "files": {}}
                s2 = {"nodes": [T("a", [], kind=kind), T("b", [], kind=kind), T("c", order, "v1")], "files": {}}
                scripts.append(("witness-fault", [("src", s1, "initial"), ("build",), ("dropblob-of", lost, 0), ("wipe-all",),
                                                  ("src", s2, "command (output-relevant) of //p:c"), ("build",), ("build",)]))
    plans = []
    for name, steps in scripts:
        for mode in ("all", "min"):
            plans.append(("%s-%s" % (name, mode), (lambda steps=steps, mode=mode: (lambda h, rr: (apply(h, steps, mode), [])[1]))()))
    batch = hc.run_batch(plans, vlib.seed())
    hc.check_plan_errors(batch)
    findings = {f["class"]: f for f in vlib.known_findings("C15")}
    evals = witness_rerun_fails(out) + (len(dl[0]) if dl else 0)
    evals += witness_concurrent_rerun(out, findings)
    evals += witness_rerun_timeout(out)
    for k in range(0, len(batch), 2):
        (na, ha, _, ma), (nm, hm, _, mm) = batch[k], batch[k + 1]
        # builds that follow a cache fault: mode all has to re-execute every selected target whose outputs it cannot restore,
        # mode minimal only those an executing dependant needs -- "the same set of commands" is then demanded as
        # minimal's commands being a sub-multiset of all's (exit status and materialised bytes compared as always)
        # (a blob fault is applied to the bytes found in the workspace: when mode minimal has not restored that output the fault
        # reaches the mode-all run only, so the fault marks of BOTH runs count)
        def fault_marks(h):
            marks, seen = [], False
            for o in h.ops:
                if o[0] in ("D", "R"):
                    seen = True
                elif o[0] == "B":
                    marks.append(seen)
            return marks
        fa, fm = fault_marks(ha), fault_marks(hm)
        faulted = [x or y for x, y in zip(fa, fm)]
        # ... and mode all HEALS a fault in the first build that selects the target (it restores every selected output), mode minimal
        # only in the build in which an executing dependant needs it -- possibly several builds later.  After a fault the commands
        # are therefore compared cumulatively: what minimal has executed since the fault is a sub-multiset of what all has executed
        # since the fault (per build this is the old rule whenever both heal in the same build).  Multiplicities ARE judged: since the
        # repair of C15-F1 (per-dependency lock in LoadDependencyOutputs) two dependants that need the same unrestorable dependency
        # at the same time re-make it once.  Before that repair both re-made it: commands equal as sets only = finding C15-F1
        cum_a, cum_m = [], []
        for bi, (a, b) in enumerate(zip(ha.builds, hm.builds)):
            evals += 1
            if bi < len(faulted) and faulted[bi]:
                cum_a += a["starts"]; cum_m += b["starts"]
            predicted = bi < len(mm) and sorted(b["starts"]) == mm[bi]["exec"] and (b["rc"] == 0) == mm[bi]["ok"]
            if (a["rc"] == 0) != (b["rc"] == 0):
                hc.decide(out, "C15", findings, hm, "build %d: mode all exits %s, mode minimal exits %s (%s)" % (bi, a["rc"], b["rc"], b["stderr"][-200:]),
                          predicted, GUARDS)
            elif bi < len(faulted) and faulted[bi] and (sub_multiset(b["starts"], a["starts"]) or sub_multiset(cum_m, cum_a)):
                pass
            elif bi < len(faulted) and faulted[bi] and set(cum_m) <= set(cum_a) and "concurrent-dependency-rerun" in findings:
                out.known(findings["concurrent-dependency-rerun"]["id"], "build %d (after a cache fault) executes %s under all but %s under minimal: a "
                          "dependency was re-made by several dependants" % (bi, sorted(a["starts"]), sorted(b["starts"])))
            elif sorted(a["starts"]) != sorted(b["starts"]):
                hc.decide(out, "C15", findings, hm, "build %d executes %s under all but %s under minimal" % (bi, sorted(a["starts"]), sorted(b["starts"])),
                          predicted, GUARDS)
            else:
                for p, s in b["ws"].items():
                    if s.startswith("F") and a["ws"].get(p, "A").startswith("F") and s != a["ws"][p]:
                        hc.decide(out, "C15", findings, hm, "build %d: output %s materialised under minimal differs from mode all" % (bi, p), predicted, GUARDS)
                        break
    hc.finish(out, "C15", batch,
              "scripts of edits, taints and wipes of the workspace outputs (fresh checkout) with a build after each, applied identically to two "
              "runs (load_outputs=all and =minimal, separate cache roots and workspaces); compared pairwise and with Build.run_history in both "
              "modes; non-trivial = at least two operations and two builds", oracle_evals=evals,
              extra={"lockstep_pairs": len(batch) // 2, "perturbations": hc.perturbation_histogram(batch)})


def replay(out, path):
    rp = json.load(open(path))["replay"]
    if rp.get("stage") == "depload":
        return c15_depload.replay(out, rp)
    print(json.dumps(rp.get("description"), indent=1)); print(json.dumps(rp.get("observed"), indent=1)[:3000])
