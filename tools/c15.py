"""C15 -- load_outputs=minimal is observationally equivalent for what gets built.
Tie: every generated history is run twice in lock-step on the real binary (mode all vs mode minimal,
separate caches and workspaces) and through Build.v in both modes; the two runs are compared with each
other (model-free) and each with the model."""
import copy, json, os, shutil
import vlib, buildlib as bl, histcheck as hc

GUARDS = [("minimal-reruns-nocache-dependency", hc.g_no_nocache)]


def script(features, r):
    """A mode-independent list of steps, applied identically to both runs."""
    steps = [("src", bl.gen_snapshot(r, features=features), "initial"), ("build",), ("build",)]
    snap = steps[0][1]
    for _ in range(3):
        kind = r.choice(["edit", "edit", "wipe", "taint"])
        if kind == "edit":
            snap, why = bl.edit_snapshot(r, snap)
            steps.append(("src", snap, why))
        elif kind == "wipe":
            steps.append(("wipe", r.below(1000)))
        else:
            tis = [i for i, n in enumerate(snap["nodes"]) if n["k"] == "t"]
            steps.append(("taint", r.sample(tis, 1)))
        steps.append(("build",))
    return steps


def apply(h, steps, mode):
    cfg = {"mode": mode, "cache": True}
    for st in steps:
        if st[0] == "src":
            h.set_sources(st[1], st[2])
        elif st[0] == "build":
            h.build(cfg)
        elif st[0] == "taint":
            h.taint(st[1])
        elif st[0] == "wipe":
            # every output is deleted (a fresh checkout): minimal mode must still give each executing command its dependency outputs
            rr = vlib.Rng(st[1])
            for i, n in enumerate(h.snap["nodes"]):
                if n["k"] == "t":
                    for k in range(len(n["outs"])):
                        if rr.chance(2, 3):
                            h.perturb(i, k, "delete")


def run(out, tier):
    n = 22 if tier == "quick" else 500
    r = vlib.Rng(vlib.seed() * 7919 + 15)
    scripts = []
    clean = dict(hc.CLEAN)
    full = dict(hc.FULL); full["nocache"] = True
    for k in range(n):
        scripts.append(("clean", script(clean, r)))
    for k in range(n):
        scripts.append(("full", script(full, r)))
    plans = []
    for name, steps in scripts:
        for mode in ("all", "min"):
            plans.append(("%s-%s" % (name, mode), (lambda steps=steps, mode=mode: (lambda h, rr: (apply(h, steps, mode), [])[1]))()))
    batch = hc.run_batch(plans, vlib.seed())
    hc.check_plan_errors(batch)
    findings = {f["class"]: f for f in vlib.known_findings("C15")}
    evals = 0
    for k in range(0, len(batch), 2):
        (na, ha, _, ma), (nm, hm, _, mm) = batch[k], batch[k + 1]
        for bi, (a, b) in enumerate(zip(ha.builds, hm.builds)):
            evals += 1
            predicted = bi < len(mm) and sorted(b["starts"]) == mm[bi]["exec"] and (b["rc"] == 0) == mm[bi]["ok"]
            if (a["rc"] == 0) != (b["rc"] == 0):
                hc.decide(out, "C15", findings, hm, "build %d: mode all exits %s, mode minimal exits %s (%s)" % (bi, a["rc"], b["rc"], b["stderr"][-200:]),
                          predicted, GUARDS)
            elif sorted(a["starts"]) != sorted(b["starts"]):
                hc.decide(out, "C15", findings, hm, "build %d executes %s under all but %s under minimal" % (bi, sorted(a["starts"]), sorted(b["starts"])),
                          predicted, GUARDS)
            else:
                for p, s in b["ws"].items():
                    if s.startswith("F") and a["ws"].get(p, "A").startswith("F") and s != a["ws"][p]:
                        hc.decide(out, "C15", findings, hm, "build %d: output %s materialised under minimal differs from mode all" % (bi, p), predicted, GUARDS)
                        break
    hc.finish(out, "C15", batch,
              "scripts of edits, taints and wipes of the workspace outputs (fresh checkout) with a build after each, applied identically to two "
              "runs (load_outputs=all and =minimal, separate cache roots and workspaces); compared pairwise and with Build.run_history in both "
              "modes; non-trivial = at least two operations and two builds", oracle_evals=evals, extra={"lockstep_pairs": len(batch) // 2})


def replay(out, path):
    rp = json.load(open(path))["replay"]
    print(json.dumps(rp.get("description"), indent=1)); print(json.dumps(rp.get("observed"), indent=1)[:3000])
