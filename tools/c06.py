"""C06 -- cached outputs are restored exactly, from any workspace state (+ the restore part of C04:
a directory restore never hangs).

Tie: generated directory trees / files are materialised on disk, written through the REAL output
handlers into a real FileSystemCache, the destination is put into a prior state, optionally CAS
blobs are deleted, and the real Load runs under a hang detector (harness/go/tree).  Oracles on the
implementation, model-free: listing after restore == listing before caching; a restore with faults
ends `error` (or `ok` with an exact listing), never `hang`/`panic`.  Correspondence: outcome class
and listing predicted by the extracted Tree.v model (ocaml/tree/driver.ml)."""
import copy, hashlib, json, os, shutil, subprocess
from concurrent.futures import ThreadPoolExecutor
import vlib
from vlib import hx, unhx

ALGOS = ["xxh3", "sha256"]
STATES = ["absent", "noparent", "same", "modified", "truncated", "extra", "file"]
MODES = [0o644, 0o755, 0o600, 0o700, 0o444]

NAMES = [b"a", b"b", b"c", b"file.txt", b"a b", b" lead", b"trail ", b".hidden", b"..x", b"...", b"-rf", b"--", b"-",
         "ü".encode(), "日本語".encode(), "é.txt".encode(), b"a\nb", b"a\tb", b"A", b"a.b.c",
         b"x" * 200, b"'q'", b'"dq"', b"$v", b"*", b"?", b"\\", b"a:b", b"a,b", b"~", b"#", b"%s", b"d", b"e", b"sub", b"bin",
         "‮evil".encode(), b"out", b"tool", b"Makefile", b"z",
         # names that LOOK encoded (percent / backslash / HTML escapes, '+' for a space): stored and restored verbatim
         b"r%20f.txt", b"a%41", b"%2e%2e", b"100%", b"%zz", b"v%31", b"a\\x41", b"a+b", b"&amp;", b"aA"]
BAD_NAMES = [b"\xff", b"a\xfe", b"\xc3", b"\xe2\x82", b"\xc0\xaf", b"\xed\xa0\x80", b"ok\x80", b"\xf5\x80\x80\x80"]
CONTENTS = [b"", b"", b"x", b"hello\n", b"\x00\x01\xff", b"#!/bin/sh\necho hi\n", b"y" * 100, b"ab" * 20000,
            b"same", b"same", b"\n", b"x\n"]
LINKS = [b"nope", b"/etc/hostname", b"/nonexistent/abs", b"../up", b"a b", b".", b"./a", b"x" * 300, "ü".encode(), b"t%20x", b"%2e%2e/up"]


def sha16(b):
    return hashlib.sha256(b).hexdigest()[:16]


# ------------------------------------------------------------------ generator
def gen_entries(r, depth, st, names=NAMES):
    """entries of one directory: ('f', name, content, mode) | ('d', name, entries) | ('l', name, target)"""
    n = r.choice([0, 1, 1, 2, 2, 3, 3, 4, 5, 6])
    used, es = set(), []
    for _ in range(n):
        if st["budget"] <= 0:
            break
        name = r.choice(names)
        if name in used:
            continue
        used.add(name)
        st["budget"] -= 1
        k = r.below(10)
        if k < 5:
            c = r.choice(CONTENTS) if r.chance(3, 4) else bytes(r.below(256) for _ in range(r.below(40)))
            es.append(("f", name, c, r.choice(MODES)))
        elif k < 8 and depth < 5:
            if st["subtrees"] and r.chance(1, 4):
                sub = r.choice(st["subtrees"])
                if height(sub) + depth + 1 <= 5:
                    es.append(("d", name, copy.deepcopy(sub)))
                    continue
            sub = gen_entries(r, depth + 1, st, names)
            st["subtrees"].append(sub)
            es.append(("d", name, sub))
        elif k < 8:
            es.append(("d", name, []))
        else:
            sib = [e[1] for e in es]
            tg = r.choice(sib) if sib and r.chance(1, 2) else r.choice(LINKS)
            es.append(("l", name, tg))
    return es


def height(es):
    return 1 + max([height(e[2]) for e in es if e[0] == "d"] + [0])


def gen_tree(r, names=NAMES, budget=40):
    return gen_entries(r, 1, {"budget": budget, "subtrees": []}, names)


def tokens(es, model=False):
    out = []
    for e in es:
        if e[0] == "f":
            out.append("f:%s:%s:%o" % (hx(e[1]), hx(sha16(e[2])) if model else hx(e[2]), e[3]))
        elif e[0] == "l":
            out.append("l:%s:%s" % (hx(e[1]), hx(e[2])))
        elif e[0] == "p":
            out.append("p:%s" % hx(e[1]))
        else:
            out.append("d:%s" % hx(e[1]))
            out += tokens(e[2], model)
            out.append("u")
    return out


def tree_field(es, model=False):
    t = tokens(es, model)
    return ",".join(t) if t else "-"


def dest_field(d, model=False):
    if d[0] in ("A", "P"):
        return d[0]
    if d[0] == "F":
        return "F:%s:%o" % (hx(sha16(d[1])) if model else hx(d[1]), d[2])
    t = tokens(d[1], model)
    return "D," + ",".join(t) if t else "D"


def all_dirs(es, acc=None):
    acc = [es] if acc is None else acc
    for e in es:
        if e[0] == "d":
            acc.append(e[2])
            all_dirs(e[2], acc)
    return acc


def contents_of(es):
    res = []
    for e in es:
        if e[0] == "f":
            res.append(e[2])
        elif e[0] == "d":
            res += contents_of(e[2])
    return res


def fresh_name(r, es):
    used = {e[1] for e in es}
    for _ in range(50):
        n = r.choice(NAMES + [b"stale", b"old.o", b".cache"])
        if n not in used:
            return n
    return b"stale-%d" % r.below(10 ** 6)


def perturb(r, tree, kind):
    """the destination's prior state as (tag, ...) built from the tree that will be restored"""
    if kind == "absent":
        return ("A",)
    if kind == "noparent":
        return ("P",)
    if kind == "file":
        return ("F", r.choice(CONTENTS), r.choice(MODES))
    t = copy.deepcopy(tree)
    if kind == "same":
        if r.chance(1, 3):   # same tree, permission bits differ without touching the exec bit
            for d in all_dirs(t):
                for i, e in enumerate(d):
                    if e[0] == "f":
                        d[i] = ("f", e[1], e[2], {0o644: 0o600, 0o600: 0o444, 0o444: 0o644, 0o755: 0o700, 0o700: 0o755}[e[3]])
        return ("D", t)
    dirs = all_dirs(t)
    if kind == "extra":
        for _ in range(1 + r.below(3)):
            d = r.choice(dirs)
            n = fresh_name(r, d)
            k = r.below(4)
            if k == 0:
                d.append(("f", n, r.choice(CONTENTS), r.choice(MODES)))
            elif k == 1:
                d.append(("d", n, [("f", b"inner", b"stale", 0o755)] if r.chance(1, 2) else []))
            elif k == 2:
                d.append(("l", n, r.choice(LINKS)))
            else:
                d.append(("d", n, [("d", b"deep", [("l", b"l", b"..")])]))
        return ("D", t)
    files = [(d, i) for d in dirs for i, e in enumerate(d) if e[0] == "f"]
    if kind == "truncated":
        cand = [(d, i) for d, i in files if len(d[i][2]) > 0]
        if cand:
            d, i = r.choice(cand)
            e = d[i]
            d[i] = ("f", e[1], e[2][:r.choice([0, len(e[2]) // 2, len(e[2]) - 1])], e[3])
            return ("D", t)
        kind = "modified"
    # modified
    ents = [(d, i) for d in dirs for i in range(len(d))]
    if not ents:
        t.append(("f", b"stale", b"x", 0o644))
        return ("D", t)
    d, i = r.choice(ents)
    e = d[i]
    k = r.below(6)
    if e[0] == "f":
        if k == 0:
            d[i] = ("f", e[1], e[2], e[3] ^ 0o111 if e[3] & 0o111 in (0, 0o111) else 0o644)      # exec bit flipped
        elif k == 1:
            d[i] = ("d", e[1], [])                                                                 # directory in place of a file
        elif k == 2:
            d.pop(i)                                                                               # file missing
        elif k == 3:
            d[i] = ("l", e[1], b"nope")
        else:
            c = bytes((b ^ 1) for b in e[2]) if e[2] else b"now not empty"                         # same size, other bytes
            d[i] = ("f", e[1], c, e[3])
    elif e[0] == "d":
        if k < 2:
            d.pop(i)                                                                               # (empty) sub-directory missing
        elif k < 4:
            d[i] = ("f", e[1], b"was a dir", 0o644)
        else:
            e[2].append(("f", fresh_name(r, e[2]), b"added", 0o644))
    else:
        if k < 3:
            d[i] = ("l", e[1], e[2] + b"x")                                                        # link retargeted
        elif k < 5:
            d[i] = ("f", e[1], e[2], 0o644)
        else:
            d.pop(i)
    return ("D", t)


# ------------------------------------------------------------------ listings
def py_listing(es, prefix=b"", acc=None):
    if acc is None:
        acc = {(b"", "d")}
    for e in es:
        p = prefix + b"/" + e[1] if prefix else e[1]
        if e[0] == "f":
            acc.add((p, "f", 1 if e[3] & 0o111 else 0, len(e[2]), sha16(e[2])))
        elif e[0] == "l":
            acc.add((p, "l", e[2]))
        elif e[0] == "d":
            acc.add((p, "d"))
            py_listing(e[2], p, acc)
        else:
            acc.add((p, "o"))
    return acc


def parse_listing(s, model=False):
    """harness: path:f:x:size:sha16 ; model: path:f:x:hex(cid)"""
    res = set()
    if s in ("-", ""):
        return None
    for ent in s.split(","):
        f = ent.split(":")
        p = unhx(f[0])
        if f[1] == "f":
            if model:
                res.add((p, "f", int(f[2]), unhx(f[3]).decode()))
            else:
                res.add((p, "f", int(f[2]), int(f[3]), f[4]))
        elif f[1] == "l":
            res.add((p, "l", unhx(f[2])))
        else:
            res.add((p,) + tuple(f[1:]))
    return res


def drop_size(lst):
    return None if lst is None else {(e[0], "f", e[2], e[4]) if e[1] == "f" else e for e in lst}


def show(lst, n=12):
    if lst is None:
        return None
    return sorted(repr(e) for e in lst)[:n]


# ------------------------------------------------------------------ running the harness / the model
def run_harness(h, lines, nproc=12, args=()):
    """Run lines through short-lived harness processes in parallel; a process that dies (a panic in a
    goroutine of the code under test) is charged to the first line it did not answer."""
    def chunk_run(chunk):
        res = []
        todo = list(chunk)
        while todo:
            p = subprocess.run([h] + list(args), input="\n".join(todo) + "\n", stdout=subprocess.PIPE,
                               stderr=subprocess.PIPE, text=True, timeout=1200)
            got = p.stdout.split("\n")
            if got and got[-1] == "":
                got.pop()
            got = got[:len(todo)]
            res += got
            if len(got) < len(todo):
                res.append("crash\tpanic\t-\t-\t-\t" + hx(p.stderr[-600:]))
                todo = todo[len(got) + 1:]
            else:
                todo = []
        return res
    size = max(1, min(40, (len(lines) + nproc - 1) // nproc))
    chunks = [lines[i:i + size] for i in range(0, len(lines), size)]
    with ThreadPoolExecutor(nproc) as ex:
        out = []
        for r in ex.map(chunk_run, chunks):
            out += r
    return out


def run_model(lines, nproc=12):
    drv = vlib.build_driver("tree")

    def chunk_run(chunk):
        p = subprocess.run([drv], input="\n".join(chunk) + "\n", stdout=subprocess.PIPE, stderr=subprocess.PIPE, text=True, timeout=1800)
        got = p.stdout.split("\n")
        if got and got[-1] == "":
            got.pop()
        if p.returncode != 0 or len(got) != len(chunk):
            raise RuntimeError("tree model driver failed: rc=%s %d/%d %s" % (p.returncode, len(got), len(chunk), p.stderr[-400:]))
        return got
    size = max(1, (len(lines) + 4 * nproc - 1) // (4 * nproc))
    chunks = [lines[i:i + size] for i in range(0, len(lines), size)]
    res = []
    with ThreadPoolExecutor(nproc) as ex:
        for r in ex.map(chunk_run, chunks):
            res += r
    return [m.split("\t") for m in res]


def guards(m):
    g = dict(kv.split("=") for kv in m[3].split(";"))
    return g


def get_harness(out):
    try:
        return vlib.build_harness("tree")
    except vlib.HarnessUnavailable as e:
        out.notes.append("inprocess_tie: unavailable (%s)" % str(e)[-500:])
        return None


OUT_NAMES = [b"gen/out", b"gen/out", b"gen/dist[v1]", b"gen/out", b"g*n/o?t", b"gen/out", b"gen/sp ace", b"gen/out", b"gen/back\\slash",
             b"gen/out", b"[x]/{a,b}"]


def fault_field(missing, model=False, mid=False):
    """missing: list of 'T' or content bytes; mid (implementation only): the blobs stay but reading them breaks half way --
    for the model an unreadable blob is a missing blob"""
    if not missing:
        return "-"
    pre = "m" if (mid and not model) else ""
    return ",".join((pre + "T") if m == "T" else (hx(sha16(m)) if model else pre + "c" + sha16(m)) for m in missing)


def replay_of(kind, **kw):
    d = {"kind": kind}
    for k, v in kw.items():
        d[k] = v
    d["replay_cmd"] = "./check C06 --replay <this file>"
    return d


# ------------------------------------------------------------------ restore faults (C04, restore part)
def restore_fault_cases(out, tier, rng=None, harness=None):
    """For generated trees: delete each single CAS blob in turn (quick: a sample) and a few random sets of
    blobs, restore through the real DirectoryOutputHandler.Load under a hang detector.  Oracle: the call
    returns (`error`, or `ok` with the exact listing); never `hang`/`panic`.  Adds violations (of the property
    whose check calls it: C04 or C06) to `out`; returns counts."""
    r = rng or vlib.Rng(vlib.seed() ^ 0xC04)
    h = harness or get_harness(out)
    stats = {"available": h is not None, "cases": 0, "ok": 0, "error": 0, "hang": 0, "panic": 0,
             "single_faults": 0, "multi_faults": 0, "trees": 0, "model_mismatches": 0}
    if h is None:
        return stats
    ntrees = 60 if tier == "quick" else 600
    per_tree = 4 if tier == "quick" else 10 ** 6
    shapes = [[("f", b"a", b"x", 0o644)],                                               # flat, one file
              [("f", b"a", b"x", 0o644), ("f", b"b", b"y", 0o755)],                     # flat, two files
              [("f", b"a", b"x", 0o644), ("d", b"d", [])],                              # one file, one (empty) sub-directory
              [("d", b"d", [("f", b"a", b"x", 0o644)])],                                # the file one level down
              [("d", b"d", [("f", b"a", b"x", 0o644)]), ("d", b"e", [("f", b"a", b"x", 0o644)])],   # de-duplicated children
              [("f", b"a", b"x", 0o644), ("f", b"b", b"x", 0o644), ("d", b"d", [])],    # duplicate content: one blob, two downloads
              [("d", b"d", [("d", b"e", [("d", b"f", [("f", b"a", b"x", 0o644), ("f", b"b", b"y", 0o644)])])])],
              [("f", b"big", b"A" * 100000, 0o644), ("f", b"b", b"y", 0o644)],        # a blob larger than one io.Copy chunk
              []]
    cases = []   # (tree, dest, missing[, mid-stream read fault instead of deletion])
    for n in range(ntrees):
        tree = shapes[n] if n < len(shapes) else gen_tree(r, budget=25)
        stats["trees"] += 1
        blobs = ["T"] + sorted(set(contents_of(tree)))
        singles = blobs if len(blobs) <= per_tree else ["T"] + r.sample(blobs[1:], per_tree - 1)
        for b in singles:
            cases.append((tree, ("A",), [b])); stats["single_faults"] += 1
            if n < len(shapes) or r.chance(1, 2):
                cases.append((tree, ("A",), [b], True)); stats["midstream_read_faults"] = stats.get("midstream_read_faults", 0) + 1
        if len(blobs) > 2:
            for _ in range(2):
                cases.append((tree, perturb(r, tree, r.choice(["absent", "modified", "extra", "file", "noparent"])),
                              r.sample(blobs, 2 + r.below(len(blobs) - 1)))); stats["multi_faults"] += 1
        if n == 0:
            # wide directories with many unreadable blobs (more failing downloads than any plausible pool, semaphore or channel
            # capacity: 64, 128): every failing download must give its resources back
            for nf, nmiss in ((70, 66), (160, 160), (200, 130), (300, 129)):
                wide = [("f", b"w%03d" % k, b"content-%03d" % k, 0o644) for k in range(nf)]
                wb = sorted(set(contents_of(wide)))
                cases.append((wide, ("A",), r.sample(wb, nmiss))); stats["multi_faults"] += 1
                cases.append((wide, ("A",), r.sample(wb, nmiss), True)); stats["midstream_read_faults"] = stats.get("midstream_read_faults", 0) + 1
        if n == 0:
            # ... and wide directories restored WITHOUT any fault (more files than any plausible limit on concurrent downloads:
            # 32, 64, 128, 1024): every file must be there afterwards, whatever was in the way before
            for nf in (33, 34, 65, 130, 300, 1100):
                wide = [("f", b"w%04d" % k, b"content-%04d" % k, 0o644) for k in range(nf)]
                cases.append((wide, ("A",), [])); stats["fault_free_wide"] = stats.get("fault_free_wide", 0) + 1
                cases.append((wide, perturb(r, wide, "modified"), [])); stats["fault_free_wide"] += 1
                deep = [("d", b"d%d" % (k % 3), [("f", b"w%04d" % j, b"content-%04d" % j, 0o644) for j in range(k, nf, 3)]) for k in range(3)]
                cases.append((deep, ("A",), [])); stats["fault_free_wide"] += 1
        if n % 5 == 0:   # nothing to restore: faults must not matter
            cases.append((tree, ("D", copy.deepcopy(tree)), blobs))
    mids = [len(c) > 3 and c[3] for c in cases]
    cases = [c[:3] for c in cases]
    lines = ["dir\t%s\t%s\t%s\t%s" % (ALGOS[i % 2], tree_field(t), dest_field(d), fault_field(m, mid=mids[i])) for i, (t, d, m) in enumerate(cases)]
    mlines = ["dir\t%s\t%s\t%s" % (tree_field(t, True), dest_field(d, True), fault_field(m, True)) for t, d, m in cases]
    impl = run_harness(h, lines)
    model = run_model(mlines)
    for i, (t, d, m) in enumerate(cases):
        f = impl[i].split("\t")
        mo = model[i]
        stats["cases"] += 1
        cls = f[1] if f[0] == "ok" else f[0]
        rp = replay_of("dir", algo=ALGOS[i % 2], line=lines[i], model_line=mlines[i], impl=impl[i][:600], model="\t".join(mo),
                       missing=[x if x == "T" else sha16(x) for x in m])
        if cls in stats:
            stats[cls] += 1
        if cls == "hang":
            # C04_restore_terminates holds without a guard (the download goroutines never block on errChan): no class is excused
            g = guards(mo)
            out.violation("directory restore hangs (%s) with %s failing download(s), errChan capacity %s; e.g. tree %s with blob(s) %s deleted" % (
                unhx(f[5]).decode("latin-1")[:80], g["failed"], g["cap"], tree_field(t, True)[:120], rp["missing"][:3]), rp)
        elif cls == "panic" or f[0] in ("crash", "harness-error"):
            out.violation("directory restore crashed: %s" % unhx(f[-1]).decode("latin-1")[:200], rp)
        elif cls == "ok":
            if parse_listing(f[3]) != parse_listing(f[2]):
                out.violation("restore with %s cache entries reported success but the directory differs from what was cached" % (
                    "no unreadable or deleted" if not m else "unreadable (read error half way)" if mids[i] else "deleted"), rp)
        if cls in ("ok", "error", "hang") and mo[0] == "ok" and mo[1] != cls:
            stats["model_mismatches"] += 1
            if not any(not v["no_input"] for v in out.violations):
                out.violation("correspondence Tree.load_tree ~ DirectoryOutputHandler.Load broke under faults: impl=%s model=%s" % (cls, mo[1]),
                              dict(rp, correspondence="Tree.load_tree (Stuck/Error/Done) vs DirectoryOutputHandler.Load"), no_input=True)
    return stats


# ------------------------------------------------------------------ directory round trips
def dir_roundtrips(out, tier, r, h):
    ntrees = 260 if tier == "quick" else 5000
    cases = []
    fixed = [[("f", b"a%41.txt", b"one", 0o644), ("f", b"aA.txt", b"two", 0o644), ("d", b"v%31", [("f", b"x", b"in-escaped", 0o644)]),
              ("d", b"v1", [("f", b"x", b"in-plain", 0o644)]), ("l", b"ln", b"v%31/x"), ("f", b"r%20f", b"", 0o755)],
             [], [("d", b"e", [])], [("d", b"e", [("d", b"f", [])])],
             [("f", b"tool", b"#!/bin/sh\n", 0o755), ("f", b"data", b"", 0o644), ("l", b"ln", b"tool"), ("d", b"empty", [])],
             [("d", b"x", [("f", b"a", b"same", 0o644)]), ("d", b"y", [("f", b"a", b"same", 0o644)])],     # identical sub-trees
             [("d", b"x", [("f", b"a", b"same", 0o644)]), ("d", b"y", [("f", b"a", b"same", 0o755)])],     # differ in the exec bit only
             [("d", b"x", [("f", b"a", b"", 0o644)]), ("d", b"y", [("l", b"a", b"x")])]]
    for n in range(ntrees):
        tree = fixed[n] if n < len(fixed) else gen_tree(r)
        for k in STATES:
            cases.append((tree, k, perturb(r, tree, k)))
    algos = (lambda i: [ALGOS[(i // len(STATES)) % 2]]) if tier == "quick" else (lambda i: ALGOS)
    lines, mlines, idx = [], [], []
    for i, (t, k, d) in enumerate(cases):
        for a in algos(i):
            # the output's own path: mostly gen/out, every third case a name that is unusual but legal (glob metacharacters,
            # a space, a backslash): the restore must treat the path as a path, never as a pattern
            lines.append("dir\t%s\t%s\t%s\t-\t%s" % (a, tree_field(t), dest_field(d), hx(OUT_NAMES[(i // len(STATES)) % len(OUT_NAMES)])))
            idx.append(i)
        mlines.append("dir\t%s\t%s\t-" % (tree_field(t, True), dest_field(d, True)))
    corpus = os.path.join(vlib.VERIF, "corpus", "C06", "cases.txt")
    extra_corpus = []
    if os.path.exists(corpus):
        for l in open(corpus):
            l = l.rstrip("\n")
            if l and not l.startswith("#"):
                extra_corpus.append(l)
    model = run_model(mlines)
    impl = run_harness(h, extra_corpus + lines) if h else None
    stats = {"cases": len(lines), "ok": 0, "by_state": {k: 0 for k in STATES}, "model_mismatches": 0,
             "oracle_failures": 0, "corpus": len(extra_corpus)}
    nontriv, samples, mism = set(), [], []
    if impl is None:
        return stats, nontriv, samples
    for j, l in enumerate(extra_corpus):
        f = impl[j].split("\t")
        if f[0] != "ok" or f[1] != "ok" or parse_listing(f[2]) != parse_listing(f[3]):
            out.violation("corpus case no longer round-trips: %s" % impl[j][:200], replay_of("line", line=l))
    impl = impl[len(extra_corpus):]
    for j, line in enumerate(lines):
        i = idx[j]
        t, k, d = cases[i]
        f = impl[j].split("\t")
        mo = model[i]
        rp = replay_of("dir", line=line, model_line=mlines[i], state=k, impl=impl[j][:800], model="\t".join(mo)[:800])
        want = py_listing(t)
        before, after = parse_listing(f[2]), parse_listing(f[3]) if len(f) > 3 else None
        if f[0] != "ok" or f[1] != "ok":
            stats["oracle_failures"] += 1
            out.violation("directory output not restored from prior state '%s': write=%s load=%s %s" % (
                k, f[0], f[1] if len(f) > 1 else "", unhx(f[-1]).decode("latin-1")[:160] if len(f) > 5 else ""), rp)
            continue
        stats["ok"] += 1
        stats["by_state"][k] += 1
        if before != want:
            raise RuntimeError("harness did not materialise the generated tree: %s vs %s" % (show(before), show(want)))
        if after != before:
            stats["oracle_failures"] += 1
            out.violation("restored directory differs from what was cached (prior state '%s'): missing %s, unexpected %s" % (
                k, show(before - after, 4), show(after - before, 4)), rp)
        elif len(f) > 4 and "reload=0" in f[4]:
            stats["oracle_failures"] += 1
            out.violation("the restored directory is not independent of the cache: after its files were modified in place and the tree "
                          "removed, a second restore does not reproduce the cached tree (prior state '%s')" % k, rp)
        elif len(f) > 4 and "reload=1" in f[4]:
            stats["reload_after_inplace_edit_ok"] = stats.get("reload_after_inplace_edit_ok", 0) + 1
        # correspondence
        ml = parse_listing(mo[2], model=True) if mo[0] == "ok" and mo[1] == "ok" else None
        if ml != drop_size(after) or guards(mo)["wf"] != "1":
            mism.append((j, show(ml, 5), show(drop_size(after), 5)))
        if len(t) > 0:
            nontriv.add(mlines[i])
        if len(samples) < 3 and len(t) > 2 and k in ("modified", "extra", "file"):
            samples.append({"state": k, "tree": tree_field(t, True)[:300], "dest": dest_field(d, True)[:300], "load": f[1],
                            "restored_equals_cached": after == before, "model_agrees": ml == drop_size(after)})
    stats["model_mismatches"] = len(mism)
    if mism and not any(not v["no_input"] for v in out.violations):
        j, a, b = mism[0]
        out.violation("correspondence Tree.write_tree/load_tree ~ DirectoryOutputHandler.Write/Load broke on %d cases: model listing %s, "
                      "implementation %s; the listing oracle of C06 holds on the implementation" % (len(mism), a, b),
                      replay_of("dir", correspondence="Tree.load_tree listing vs DirectoryOutputHandler.Load result", line=lines[j],
                                model_line=mlines[idx[j]], impl=impl[j][:800], model="\t".join(model[idx[j]])[:800]), no_input=True)
    return stats, nontriv, samples


# ------------------------------------------------------------------ unjudged stream: names / entries outside the quantifier
def odd_entries(out, r, h, tier):
    """names that are not valid UTF-8, FIFOs: recorded; a violation only if the code panics or a restore hangs"""
    n = 24 if tier == "quick" else 300
    cases = []
    for i in range(n):
        t = gen_tree(r, names=NAMES[:8] + BAD_NAMES, budget=10)
        if i % 6 == 0:
            t.append(("l", b"lnk", b"\xff\xfe"))
        cases.append(t)
    fifo = [("f", b"a", b"x", 0o644), ("p", b"pipe")]
    lines = ["dir\txxh3\t%s\tA\t-" % tree_field(t) for t in cases]
    mlines = ["dir\t%s\tA\t-" % tree_field(t, True) for t in cases]
    impl = run_harness(h, lines + ["dir\txxh3\t%s\tA\t-" % tree_field(fifo)])
    model = run_model(mlines)
    st = {"cases": len(cases), "write_error_invalid_utf8": 0, "roundtrip_ok": 0, "model_agrees": 0, "fifo_write": None}
    for i, t in enumerate(cases):
        f = impl[i].split("\t")
        if f[0] in ("wpanic", "crash") or (len(f) > 1 and f[1] in ("panic", "hang")):
            out.violation("directory output with unusual names: %s/%s" % (f[0], f[1]), replay_of("dir", line=lines[i], impl=impl[i][:600]))
        if f[0] == "werror":
            st["write_error_invalid_utf8"] += "invalid UTF-8" in unhx(f[5]).decode("latin-1")
        elif f[0] == "ok" and f[1] == "ok" and parse_listing(f[2]) == parse_listing(f[3]):
            st["roundtrip_ok"] += 1
        st["model_agrees"] += (f[0] == "werror") == (model[i][0] == "werror")
    f = impl[len(cases)].split("\t")
    st["fifo_write"] = f[0]
    if st["model_agrees"] != len(cases) and not out.violations:
        out.violation("correspondence Tree.names_ok ~ protobuf Marshal (invalid UTF-8 => Write error) broke on %d cases" % (
            len(cases) - st["model_agrees"]), replay_of("dir", correspondence="Tree.utf8_valid vs proto.Marshal string validation"), no_input=True)
    out.notes.append("not judged (outside the property's quantifier): a directory output holding an entry name or link target that is not valid "
                     "UTF-8 cannot be cached at all (Write fails: 'string field contains invalid UTF-8', the target fails) -- %d/%d such trees; "
                     "a FIFO inside a directory output: Write -> %s (os.Open of the FIFO blocks while hashing)" % (
                         st["write_error_invalid_utf8"], len(cases), f[0]))
    return st


# ------------------------------------------------------------------ file outputs
def file_roundtrips(out, tier, r, h):
    contents = [b"", b"x", b"#!/bin/sh\necho hi\n", b"\x00\xff" * 50, b"ab" * 20000]
    if tier != "quick":
        contents += [bytes(r.below(256) for _ in range(r.below(3000))) for _ in range(40)]
    cases = []
    for c in contents:
        for md in (0o755, 0o644, 0o700, 0o600):
            other = bytes((b ^ 1) for b in c) if c else b"other"
            dests = [("absent", ("A",)), ("noparent", ("P",)), ("same", ("F", c, 0o644)), ("same+x", ("F", c, 0o755)),
                     ("modified", ("F", other, 0o644)), ("modified+x", ("F", other, 0o755)),
                     ("truncated", ("F", c[:len(c) // 2], md)), ("directory", ("D", [])),
                     ("directory-nonempty", ("D", [("f", b"f", b"x", 0o644)])),
                     ("directory-deep", ("D", [("d", b"s", [("f", b"g", c, md), ("d", b"e", [])]), ("l", b"ln", b"s"), ("f", b"tool", other, 0o755)]))]
            for k, d in dests:
                cases.append((c, md, k, d))
    lines = ["file\t%s\t%s\t%o\t%s\t-" % (ALGOS[i % 2], hx(c), md, dest_field(d)) for i, (c, md, k, d) in enumerate(cases)]
    mlines = ["file\t%s\t%d\t%s\t0" % (hx(sha16(c)), 1 if md & 0o111 else 0, dest_field(d, True)) for c, md, k, d in cases]
    impl = run_harness(h, lines)
    model = run_model(mlines)
    st = {"cases": len(cases), "exact": 0, "exact_over_directory": 0,
          "model_mismatches": 0, "exec_flag_recorded": 0, "exec_bit_restored_over_other_bit": 0}
    nontriv = set()
    for i, (c, md, k, d) in enumerate(cases):
        f = impl[i].split("\t")
        mo = model[i]
        g = dict(kv.split("=") for kv in mo[2].split(";"))
        x = 1 if md & 0o111 else 0
        rp = replay_of("file", line=lines[i], model_line=mlines[i], state=k, impl=impl[i][:500], model="\t".join(mo))
        nontriv.add(mlines[i])
        recorded = 1 if "exec_recorded=1" in impl[i] else 0 if "exec_recorded=0" in impl[i] else None
        st["exec_flag_recorded"] += recorded == 1
        cls = f[1] if f[0] == "ok" else f[0]
        before, after = parse_listing(f[2]), parse_listing(f[3]) if len(f) > 3 else None
        mcls = mo[0]
        ml = parse_listing(mo[1], model=True) if mcls == "ok" else None
        if cls != mcls or (cls == "ok" and ml != drop_size(after)) or (recorded is not None and recorded != int(g["exec_recorded"])):
            st["model_mismatches"] += 1
            if not any(not v["no_input"] for v in out.violations):
                out.violation("correspondence Tree.file_load ~ FileOutputHandler.Load broke: impl %s %s, model %s %s" % (
                    cls, show(after), mcls, show(ml)), dict(rp, correspondence="Tree.file_write/file_load vs FileOutputHandler"), no_input=True)
        if cls == "ok" and after == before and "reload=0" in impl[i]:
            out.violation("the restored file is not independent of the cache: after it was modified in place and removed, a second restore "
                          "does not reproduce the cached file (prior state '%s')" % k, rp)
            continue
        if cls == "ok" and after == before:
            st["exact"] += 1
            st["reload_after_inplace_edit_ok"] = st.get("reload_after_inplace_edit_ok", 0) + ("reload=1" in impl[i])
            st["exact_over_directory"] += d[0] == "D"
            st["exec_bit_restored_over_other_bit"] += d[0] == "F" and int(g["prior_exec"]) != x
            continue
        # the oracle failed on the implementation.  C06_file_roundtrip carries no guard on the prior state of the path any more
        # (C06-F1 exec bit, C06-F2 missing parent, C06-F3 directory at the path are repaired): every prior state is judged alike,
        # anything but the cached file (content + exec bit) is a violation.
        out.violation("file output not restored exactly from prior state '%s': %s, cached %s, restored %s" % (
            k, cls, show(before), show(after)), rp)
    return st, nontriv


# ------------------------------------------------------------------ CLI tie
MK_PY = r'''
import os, sys
def unhx(h): return b"" if h == "-" else bytes.fromhex(h)
def mat(d, toks):
    while toks:
        t = toks.pop(0)
        if t == "u": return
        f = t.split(":")
        p = os.path.join(d, unhx(f[1]))
        if f[0] == "f":
            open(p, "wb").write(unhx(f[2])); os.chmod(p, int(f[3], 8))
        elif f[0] == "l": os.symlink(unhx(f[2]), p)
        elif f[0] == "p": os.mkfifo(p)
        else:
            os.mkdir(p); mat(p, toks)
spec = open(sys.argv[1]).read().strip()
dest = os.fsencode(sys.argv[2])
os.makedirs(dest)
if spec != "-": mat(dest, spec.split(","))
'''


def fs_listing(path):
    res = set()

    def walk(p, rel):
        if os.path.islink(p):
            res.add((rel, "l", os.readlink(p)))
        elif os.path.isdir(p):
            res.add((rel, "d"))
            for n in os.listdir(p):
                walk(os.path.join(p, n), rel + b"/" + n if rel else n)
        elif os.path.isfile(p):
            b = open(p, "rb").read()
            res.add((rel, "f", 1 if os.stat(p).st_mode & 0o111 else 0, len(b), sha16(b)))
        elif os.path.lexists(p):
            res.add((rel, "o"))
        else:
            res.add((rel, "absent"))
    walk(os.fsencode(path), b"")
    return res


def py_materialise(path, es):
    os.makedirs(path)
    for e in es:
        p = os.path.join(os.fsencode(path), e[1])
        if e[0] == "f":
            open(p, "wb").write(e[2]); os.chmod(p, e[3])
        elif e[0] == "l":
            os.symlink(e[2], p)
        else:
            py_materialise(p, e[2])


PACKAGE_FILE_NAMES = (b"Makefile", b"BUILD.json", b"BUILD.yaml", b"BUILD.yml", b"BUILD.star", b"BUILD.bzl", b"BUILD.pkl")


def cli_safe(tree):
    """For the CLI tie only: an entry of the OUTPUT directory must not be named like a package file.  grog's loader walks the whole
    workspace, outputs included, and (rightly) reports a load error for e.g. a dangling symlink named Makefile: that is the loader's
    subject (C16), not a restore verdict.  The in-process handler round trips keep such names."""
    res = []
    for e in tree:
        name = e[1] + b"_" if (e[1] in PACKAGE_FILE_NAMES or b".grog." in e[1]) else e[1]
        if e[0] == "d":
            res.append(("d", name, cli_safe(e[2])))
        else:
            res.append((e[0], name) + tuple(e[2:]))
    return res


def cli_run(tier, r):
    """runs in a thread next to the in-process tie; touches nothing but its own scratch directory"""
    try:
        grog = vlib.build_grog()
    except vlib.HarnessUnavailable as e:
        return None, str(e)[-300:]
    base = os.path.join(vlib.scratch(), "c06cli")
    n = 7 if tier == "quick" else 42
    jobs = []
    for i in range(n):
        state = STATES[i % len(STATES)]
        tree = cli_safe(gen_tree(r, budget=20)) if i >= 2 else [("f", b"tool", b"#!/bin/sh\n", 0o755), ("d", b"empty", []), ("l", b"ln", b"tool"),
                                                                ("d", b"s", [("f", b"a b", b"", 0o600)])]
        jobs.append(("dir", i, state, tree, perturb(r, tree, state)))
    jobs.append(("file", n, "absent", None, None))
    jobs.append(("file", n + 1, "noparent", None, None))
    jobs.append(("hang", n + 2, "absent", [("f", b"a", b"only file", 0o644)], None))
    jobs.append(("file", n + 3, "same-content-noexec", None, None))     # the bytes are in place, only the exec bit is gone
    jobs.append(("file", n + 4, "modified-noexec", None, None))
    jobs.append(("file", n + 5, "directory", None, None))               # a directory (with content) sits at the file output's path

    def one(job):
        kind, i, state, tree, dest = job
        ws = os.path.join(base, "ws%d" % i)
        root = os.path.join(base, "root%d" % i)
        trace = os.path.join(base, "trace%d" % i)
        os.makedirs(ws)
        open(os.path.join(ws, "grog.toml"), "w").write("")
        open(os.path.join(ws, "mk.py"), "w").write(MK_PY)
        env = dict(os.environ, GROG_ROOT=root, HOME=base)
        res = {"kind": kind, "state": state, "i": i}
        if kind == "file":
            cmd = "mkdir -p gen && printf '#!/bin/sh\\necho tool\\n' > gen/tool && chmod 755 gen/tool && echo run >> %s" % trace
            outs = ["gen/tool"]
        else:
            open(os.path.join(ws, "spec.txt"), "w").write(tree_field(tree))
            cmd = "rm -rf gen && python3 mk.py spec.txt gen/out && echo run >> %s" % trace
            outs = ["dir::gen/out"]
        with open(os.path.join(ws, "BUILD.json"), "w") as f:
            json.dump({"targets": [{"name": "t", "command": cmd, "inputs": ["mk.py", "spec.txt"] if kind != "file" else [], "outputs": outs}]}, f)
        p1 = vlib.run([grog, "build", "//:t"], cwd=ws, env=env, timeout=120)
        res["rc1"] = p1.returncode
        if p1.returncode != 0:
            res["stderr"] = (p1.stdout + p1.stderr)[-500:]
            return res
        target = os.path.join(ws, "gen", "tool" if kind == "file" else "out")
        res["before"] = fs_listing(target)
        # perturb
        if kind == "file":
            if state == "absent":
                os.unlink(target)
            elif state == "same-content-noexec":
                os.chmod(target, 0o644)
            elif state == "modified-noexec":
                os.unlink(target); open(target, "w").write("stale\n"); os.chmod(target, 0o644)
            elif state == "directory":
                os.unlink(target); os.makedirs(os.path.join(target, "sub")); open(os.path.join(target, "sub", "stale"), "w").write("stale\n")
            else:
                shutil.rmtree(os.path.join(ws, "gen"))
        elif kind == "hang":
            shutil.rmtree(target)
            cas = None
            for dp, dn, fn in os.walk(root):
                if os.path.basename(dp) == "cas":
                    cas = dp
            for fn in os.listdir(cas or "/nonexistent"):
                if open(os.path.join(cas, fn), "rb").read() == b"only file":
                    os.unlink(os.path.join(cas, fn)); res["deleted_blob"] = True
        else:
            if dest[0] in ("A", "P"):
                shutil.rmtree(os.path.join(ws, "gen") if dest[0] == "P" else target)
            elif dest[0] == "F":
                shutil.rmtree(target); open(target, "wb").write(dest[1]); os.chmod(target, dest[2])
            else:
                shutil.rmtree(target); py_materialise(target, dest[1])
        try:
            p2 = vlib.run(["timeout", "8", grog, "build", "//:t"], cwd=ws, env=env, timeout=60)
            res["rc2"] = p2.returncode
            res["log2"] = (p2.stdout + p2.stderr)[-400:]
        except subprocess.TimeoutExpired:
            res["rc2"] = 124
        res["runs"] = len(open(trace).read().split()) if os.path.exists(trace) else 0
        res["after"] = fs_listing(target)
        return res
    with ThreadPoolExecutor(16) as ex:
        results = list(ex.map(one, jobs))
    return jobs, results


def cli_judge(out, jobs, results):
    if jobs is None:
        out.notes.append("cli_tie: unavailable (%s)" % results)
        return {"available": False}
    f6 = {f["class"]: f for f in vlib.known_findings("C06")}
    summary = {"available": True, "workspaces": len(jobs), "dir_exact_cache_hits": 0, "disagreements": 0, "hang_reproduced": False}
    for job, res in zip(jobs, results):
        kind, i, state, tree, dest = job
        rp = {"kind": "cli", "what": kind, "state": state, "tree": tree_field(tree) if tree is not None else None,
              "dest": dest_field(dest) if dest else None, "result": {k: (show(v) if isinstance(v, set) else v) for k, v in res.items()}}
        if res.get("rc1") != 0:
            out.violation("cli tie: first build failed: %s" % res.get("stderr", "")[-200:], rp, no_input=True)
            continue
        if kind == "dir":
            if res["rc2"] == 0 and res["runs"] == 1 and res["after"] == res["before"]:
                summary["dir_exact_cache_hits"] += 1
            else:
                summary["disagreements"] += 1
                out.violation("grog build: directory output not restored exactly on a cache hit from prior state '%s' (exit %s, command ran %s time(s))" % (
                    state, res["rc2"], res["runs"]), rp)
        elif kind == "hang":
            summary["missing_blob_deleted"] = bool(res.get("deleted_blob"))
            if res["rc2"] == 124:
                summary["hang_reproduced"] = True
                out.violation("grog build does not exit (killed by timeout after 8 s) when the only file blob of a flat cached directory "
                              "output is missing from the cache", rp)
            elif res["rc2"] != 0 or res["after"] != res["before"]:
                out.violation("grog build with a missing cache blob: exit %s, output differs" % res["rc2"], rp)
            else:
                summary["missing_blob_fallback_runs"] = res["runs"]     # 2: the restore failed with an error, the target was executed
        else:
            exact = res["rc2"] == 0 and res["runs"] == 1 and res["after"] == res["before"]
            lost = res["rc2"] == 0 and res["runs"] == 1 and {(e[0], e[1], e[3], e[4]) for e in res["after"]} == \
                {(e[0], e[1], e[3], e[4]) for e in res["before"]} and res["after"] != res["before"]
            rerun = res["rc2"] == 0 and res["runs"] == 2
            summary["file_" + state] = "exact" if exact else "exec-bit-lost" if lost else "re-executed" if rerun else "other"
            if rerun and state == "noparent" and "file-parent-missing" in f6:
                out.known(f6["file-parent-missing"]["id"], "class=file-parent-missing grog build re-executes a cached target because the file output's "
                          "parent directory is gone: %s" % res.get("log2", "")[-120:].replace("\n", " "))
            elif not exact:
                out.violation("grog build: file output not restored exactly on a cache hit from prior state '%s'%s" % (
                    state, " (content restored, executable bit lost: a 0755 output comes back 0644)" if lost else ""), rp)
    return summary


# ------------------------------------------------------------------ entry points
def run(out, tier):
    r = vlib.Rng(vlib.seed())
    h = get_harness(out)
    cov = {"inprocess_tie": h is not None}
    nontriv = set()
    evaluations = 0
    with ThreadPoolExecutor(2) as ex:
        cli_future = ex.submit(cli_run, tier, vlib.Rng(vlib.seed() ^ 0xC11))
        if h:
            dstats, nt, samples = dir_roundtrips(out, tier, r, h)
            vlib.log("C06: directory round trips done")
            nontriv |= nt
            fstats, nt2 = file_roundtrips(out, tier, r, h)
            nontriv |= nt2
            vlib.log("C06: file round trips done")
            rstats = restore_fault_cases(out, tier, vlib.Rng(vlib.seed() ^ 0xC04), h)
            vlib.log("C06: restore fault cases done")
            ostats = odd_entries(out, r, h, tier)
            vlib.log("C06: unjudged stream done")
            evaluations = dstats["cases"] + fstats["cases"] + rstats["cases"] + ostats["cases"]
            cov.update({"samples": samples, "directory_round_trips": dstats, "file_round_trips": fstats,
                        "restore_faults": rstats, "unjudged_stream": ostats,
                        "traces_validated_against_impl": dstats["cases"] + fstats["cases"] + rstats["cases"],
                        "correspondence_mismatches": dstats["model_mismatches"] + fstats["model_mismatches"] + rstats["model_mismatches"]})
        cov["cli_tie"] = cli_judge(out, *cli_future.result())
    out.cov.update(cov)
    out.cov.update({
        "evaluations": evaluations,
        "distinct_nontrivial": len(nontriv),
        "rule": "random directory trees (depth <= 5, fan-out <= 6, duplicate contents and sub-trees, empty files/directories, relative/absolute/"
                "dangling symlinks, modes 0644/0755/0600/0700/0444, names with spaces, dots, leading dashes, control characters, unicode) x 7 prior "
                "destination states (absent, parent absent, same, modified, truncated, stale extra entries, a file in its place), under xxh3 and "
                "sha256; file outputs: content x mode x 9 prior states; restore under deleted cache blobs (every single blob of a sample, random "
                "sets); non-trivial = non-empty tree or a file case; distinct = distinct (tree, prior state) lines",
        "input_distribution": {"states": STATES, "algos": ALGOS},
    })
    out.assumptions += ["the digest function and protobuf's deterministic Marshal are idealised as injective (Section hypotheses H_inj, ser_dir_inj, "
                        "ser_tree_inj; instantiated by Hid/enc_dir/enc_tree for execution); the tie compares listings and outcome classes, not digests",
                        "the cache is sound when the output is written (every stored blob hashes to its key): corrupt blobs are C07's subject",
                        "umask 022, the process may read every generated file (runs as the file owner), case-sensitive file system",
                        "prior destination states are those C06 names; a symlink sitting at the output path itself is not generated"]


def replay(out, path):
    rp = json.load(open(path))["replay"]
    if rp.get("kind") == "cli":
        print("cli case:", json.dumps(rp, indent=1, default=str)[:3000])
        return
    h = vlib.build_harness("tree")
    line = rp["line"]
    res = run_harness(h, [line], nproc=1)[0]
    f = res.split("\t")
    print("impl :", res[:2000])
    if len(f) > 5 and f[5] != "-":
        print("detail:", unhx(f[5]).decode("latin-1"))
    if "model_line" in rp:
        print("model:", "\t".join(run_model([rp["model_line"]])[0])[:2000])
    cls = f[1] if f[0] == "ok" else f[0]
    if cls != "ok" or parse_listing(f[2]) != parse_listing(f[3]):
        out.violation("replay: %s; cached %s restored %s" % (cls, show(parse_listing(f[2]), 6), show(parse_listing(f[3]) if len(f) > 3 else None, 6)), rp)
