#!/usr/bin/env python3
"""seed_sweep.py [jobs]   re-run, for every seed under /verif/seeded, the quick check of the property it breaks (and of the
checks that caught it before, if its own property's check did not) against a scratch worktree with the seed applied; print one
line per seed and a summary.  Seeds marked superseded (their patch no longer applies to the fixed tree) are skipped."""
import json, os, subprocess, sys
from concurrent.futures import ThreadPoolExecutor
V = "/verif"
jobs = int(sys.argv[1]) if len(sys.argv) > 1 else 2


def one(sid):
    m = json.load(open(os.path.join(V, "seeded", sid, "meta.json")))
    if m.get("status", "").startswith("superseded"):
        return sid, "superseded", ""
    prop = m.get("breaks_property") or sid[:3]
    pids = [prop] if prop in m.get("caught_by", [prop]) else sorted(set(m.get("caught_by", [])) or {prop})
    p = subprocess.run(["python3", os.path.join(V, "tools", "seed_run.py"), sid] + pids[:1], stdout=subprocess.PIPE, stderr=subprocess.PIPE, text=True)
    line = (p.stdout.strip().split("\n") or [""])[0]
    ok = '"caught": true' in line
    return sid, "caught" if ok else "MISSED", pids[0] + " " + line[:160]


with ThreadPoolExecutor(max_workers=jobs) as ex:
    res = list(ex.map(one, sorted(os.listdir(os.path.join(V, "seeded")))))
for sid, st, info in res:
    print(sid, st, info, flush=True)
print("SUMMARY", {k: sum(1 for r in res if r[1] == k) for k in ("caught", "MISSED", "superseded")})
