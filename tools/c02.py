"""C02 -- only invalidated targets re-execute; a no-op rebuild runs nothing.
Tie: histories with no-op rebuilds, workspace perturbations of output paths, comment-only command
edits (early cut-off) in both load_outputs modes, real binary vs Build.v; model-free oracles on the
executed multiset of each build."""
import json
import vlib, buildlib as bl, histcheck as hc

# (the class cache-disabled-clobbers-results, finding C02-F2, is gone: a build with --enable-cache=false writes no target
# result, so a re-execution after a cache-disabled build is a violation like any other -- witness-cache-disabled and the
# 'toggle' streams below)
GUARDS = [("file-restore-parent-missing", hc.g_no_subdir_file_restore),
          ("alias-dep-not-in-key", hc.g_no_alias_deps)]
# wrong_kind: a directory (with content) where a file output belongs / a file where a directory output belongs -- an ordinary
# perturbation since the repair of C06-F3 (both handlers replace what is in the way)
PERTURB = ["delete", "delete", "modify", "truncate", "delete_parent", "wrong_kind"]


def plan(features, mode):
    cfg = {"mode": mode, "cache": True}

    def p(h, r):
        notes = []
        h.set_sources(bl.gen_snapshot(r, features=features))
        h.build(cfg)
        h.build(cfg); notes.append(("noop", len(h.builds) - 1))
        ts = [(i, k) for i, n in enumerate(h.snap["nodes"]) if n["k"] == "t" for k in range(len(n["outs"]))]
        # perturb some output paths, then rebuild: everything must be restored, nothing executed
        for (i, k) in r.sample(ts, min(len(ts), 1 + r.below(3))):
            h.perturb(i, k, r.choice(PERTURB))
        h.build(cfg); notes.append(("noop", len(h.builds) - 1))
        # a build with the cache disabled (runs everything, must store nothing), then a cached build: nothing may run
        # (C13_cached_build_after_cache_off_is_noop; the former finding C02-F2)
        if r.chance(1, 2):
            h.build({"mode": mode, "cache": False})
            h.build(cfg); notes.append(("noop", len(h.builds) - 1))
        # comment-only command edit: the target re-executes, its dependants are restored (early cut-off)
        tis = [i for i, n in enumerate(h.snap["nodes"]) if n["k"] == "t"]
        # (an output-less target exposes its change hash as its output hash by design, so only a target
        # WITH outputs can reproduce identical outputs after a command edit)
        withouts = [i for i in tis if h.snap["nodes"][i]["outs"]] or tis
        i = r.choice(withouts)
        s2 = json.loads(json.dumps(h.snap)); s2["nodes"][i]["comment"] = "c%d" % r.below(999)
        for n in s2["nodes"]:
            if n["k"] == "t":
                n["outs"] = [tuple(o) for o in n["outs"]]
        h.set_sources(s2, "command (comment only) of %s" % bl.label(s2["nodes"][i]))
        h.build(cfg); notes.append(("cutoff", len(h.builds) - 1, i))
        # an output-relevant edit: executed set within the edited target's cone
        j = r.choice(tis)
        s3 = json.loads(json.dumps(h.snap)); s3["nodes"][j]["salt"] = "v%d" % r.below(999)
        for n in s3["nodes"]:
            if n["k"] == "t":
                n["outs"] = [tuple(o) for o in n["outs"]]
        h.set_sources(s3, "command (output-relevant) of %s" % bl.label(s3["nodes"][j]))
        h.build(cfg); notes.append(("cone", len(h.builds) - 1, j))
        return notes
    return p


def witness_parent_missing():
    def p(h, r):
        snap = {"nodes": [{"k": "t", "pkg": "p", "name": "t", "salt": "v0", "ins": [], "glob": None, "excl": [],
                           "outs": [("file", "sub/o.txt")], "deps": [], "fp": {}, "nocache": False, "multi": False, "beh": "n",
                           "check": False, "comment": ""}], "files": {}}
        h.set_sources(snap); h.build(hc.ALL_CACHE)
        h.perturb(0, 0, "delete_parent")
        h.build(hc.ALL_CACHE)
        return [("noop", len(h.builds) - 1)]
    return p


def witness_directory_at_file_path():
    """(was C06-F3) a directory sits where a cached file output belongs: the rebuild restores the file over it and runs nothing"""
    def p(h, r):
        snap = {"nodes": [{"k": "t", "pkg": "p", "name": "t", "salt": "v0", "ins": [], "glob": None, "excl": [],
                           "outs": [("file", "o.txt"), ("file", "sub/o2.txt")], "deps": [], "fp": {}, "nocache": False, "multi": False,
                           "beh": "n", "check": False, "comment": ""},
                          {"k": "t", "pkg": "p", "name": "u", "salt": "v0", "ins": [], "glob": None, "excl": [],
                           "outs": [("file", "u.txt")], "deps": [0], "fp": {}, "nocache": False, "multi": False,
                           "beh": "n", "check": False, "comment": ""}], "files": {}}
        h.set_sources(snap); h.build(hc.ALL_CACHE)
        h.perturb(0, 0, "wrong_kind"); h.perturb(0, 1, "wrong_kind")
        h.build(hc.ALL_CACHE)
        return [("noop", len(h.builds) - 1)]
    return p


def witness_cache_disabled():
    def p(h, r):
        snap = {"nodes": [{"k": "t", "pkg": "p", "name": "t", "salt": "v0", "ins": [], "glob": None, "excl": [],
                           "outs": [("file", "o.txt")], "deps": [], "fp": {}, "nocache": False, "multi": False, "beh": "n",
                           "check": False, "comment": ""}], "files": {}}
        h.set_sources(snap); h.build(hc.ALL_CACHE)
        h.build({"mode": "all", "cache": False})
        h.build(hc.ALL_CACHE)
        return [("noop", len(h.builds) - 1)]
    return p


def run(out, tier):
    n = 18 if tier == "quick" else 400
    plans = [("witness-parent-missing", witness_parent_missing()), ("witness-cache-disabled", witness_cache_disabled()),
             ("witness-directory-at-file-path", witness_directory_at_file_path()),
             ("witness-glob-syntax", hc.witness_glob_syntax(clean_ref=False))]
    clean = dict(hc.CLEAN)
    full = dict(hc.FULL); full["nocache"] = True
    for mode in ("all", "min"):
        plans += [("clean-" + mode, plan(clean, mode))] * n
        plans += [("full-" + mode, plan(full, mode))] * n
    batch = hc.run_batch(plans, vlib.seed())
    hc.check_plan_errors(batch)
    findings = {f["class"]: f for f in vlib.known_findings("C02")}
    evals = 0
    for name, h, notes, m in batch:
        snaps = [o[1] for o in h.ops if o[0] == "S"]
        for note in notes:
            bi = note[1]
            b = h.builds[bi]
            if b["rc"] != 0:
                continue
            snap = h.snap if note[0] in ("cone",) else None
            # snapshot in force at build bi
            k = -1; cur = None
            for o in h.ops:
                if o[0] == "S":
                    cur = o[1]
                if o[0] == "B":
                    k += 1
                    if k == bi:
                        break
            ncl = hc.nocache_labels(cur)
            # in minimal mode a re-executing target may re-run its no-cache dependencies (known, C15): excluded via guard
            ex = [l for l in b["starts"] if l not in ncl]
            evals += 1
            predicted = bi < len(m) and sorted(b["starts"]) == m[bi]["exec"]
            if note[0] == "noop" and ex:
                hc.decide(out, "C02", findings, h, "a rebuild without source changes executes %s (build %d)" % (sorted(ex), bi), predicted, GUARDS)
            elif note[0] == "cutoff":
                lab = bl.label(cur["nodes"][note[2]])
                extra = [l for l in ex if l != lab]
                if extra and cur["nodes"][note[2]]["outs"]:
                    hc.decide(out, "C02", findings, h, "comment-only edit of %s re-executes %s although its outputs are unchanged (no early cut-off)" % (
                        lab, sorted(extra)), predicted, GUARDS)
            elif note[0] == "cone":
                cone = hc.target_labels(cur, hc.dependants_closure(cur, [note[2]]))
                extra = [l for l in ex if l not in cone]
                if extra:
                    hc.decide(out, "C02", findings, h, "edit of %s re-executes %s outside its dependant cone" % (
                        bl.label(cur["nodes"][note[2]]), sorted(extra)), predicted, GUARDS)
    hc.finish(out, "C02", batch,
              "histories: build, no-op rebuild, perturbation of 1-3 output paths (deleted, parent directory deleted, modified, truncated, "
              "file where a directory should be, directory with content where a file should be), rebuild, [build with --enable-cache=false, rebuild: "
              "nothing may run], comment-only command edit, rebuild, output-relevant edit, rebuild; both "
              "load_outputs modes; 'clean' stream (guards hold) and 'full' stream (aliases, sub-directory outputs, no-cache); "
              "non-trivial = at least two source/perturb operations and two builds", oracle_evals=evals,
              extra={"perturbations": hc.perturbation_histogram(batch)})


def replay(out, path):
    rp = json.load(open(path))["replay"]
    print(json.dumps(rp.get("description"), indent=1)); print(json.dumps(rp.get("observed"), indent=1)[:3000])
