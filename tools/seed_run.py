#!/usr/bin/env python3
"""seed_run.py <seed id> <Cxx> [<Cxx> ...] [--tier quick|thorough] [--in-repo]
Run registered checks against a seeded change kept under /verif/seeded/<seed id>/patch.diff.

Default: a fresh scratch worktree of /repo's HEAD under /tmp (git worktree add --detach), the patch applied
there, the checks run with VERIF_REPO=<worktree> and VERIF_OUT=<scratch> (so /verif/evidence and /verif/replays are
untouched), the worktree removed afterwards.  --in-repo: git -C /repo apply, run, git -C /repo checkout -- .
(exactly what the brief prescribes; evidence is then redirected as well).  Appends the outcome to meta.json."""
import json, os, shutil, subprocess, sys, tempfile, time

V = "/verif"


def main():
    args = sys.argv[1:]
    tier = "quick"; in_repo = False
    if "--tier" in args:
        i = args.index("--tier"); tier = args[i + 1]; del args[i:i + 2]
    if "--in-repo" in args:
        args.remove("--in-repo"); in_repo = True
    sid, pids = args[0], args[1:]
    sd = os.path.join(V, "seeded", sid)
    patch = os.path.join(sd, "patch.diff")
    outdir = tempfile.mkdtemp(prefix="seedout-")
    if in_repo:
        wt = "/repo"
        subprocess.run(["git", "-C", "/repo", "apply", patch], check=True)
    else:
        wt = tempfile.mkdtemp(prefix="seedwt-")
        os.rmdir(wt)
        subprocess.run(["git", "-C", "/repo", "worktree", "add", "-q", "--detach", wt, "HEAD"], check=True)
        subprocess.run(["git", "-C", wt, "apply", patch], check=True)
    results = []
    try:
        for pid in pids:
            env = dict(os.environ, VERIF_REPO=wt, VERIF_OUT=outdir, VERIF_SEED=os.environ.get("VERIF_SEED", "1"))
            t = time.time()
            p = subprocess.run(["./check", pid, "--tier", tier], cwd=V, env=env, stdout=subprocess.PIPE, stderr=subprocess.PIPE, text=True,
                               timeout=7200)
            viol = [l for l in p.stdout.splitlines() if l.startswith("VIOLATION")]
            known = [l[:160] for l in p.stdout.splitlines() if l.startswith("KNOWN-FINDING")]
            res = {"check": "./check %s --tier %s" % (pid, tier), "exit": p.returncode, "violation_lines": [v[:400] for v in viol[:3]],
                   "known_finding_lines": len(known), "seconds": round(time.time() - t, 1),
                   "caught": p.returncode == 1 and bool(viol),
                   "with_failing_input": any("no-failing-input-found" not in v for v in viol)}
            # keep the first replay as a sample
            for v in viol[:1]:
                rp = [w for w in v.split() if w.startswith("replay=")]
                if rp and os.path.exists(rp[0][7:]):
                    try:
                        res["replay_excerpt"] = json.dumps(json.load(open(rp[0][7:])))[:1500]
                    except Exception:
                        pass
            results.append(res)
            print(json.dumps({k: res[k] for k in ("check", "exit", "caught", "with_failing_input", "seconds")}),
                  (viol[0][:300] if viol else ""), flush=True)
            if p.returncode not in (0, 1) or (p.returncode == 1 and not viol):
                print(p.stdout[-1500:], p.stderr[-1500:])
    finally:
        if in_repo:
            subprocess.run(["git", "-C", "/repo", "checkout", "--", "."], check=True)
        else:
            subprocess.run(["git", "-C", "/repo", "worktree", "remove", "--force", wt])
        shutil.rmtree(outdir, ignore_errors=True)
    mp = os.path.join(sd, "meta.json")
    meta = json.load(open(mp)) if os.path.exists(mp) else {"id": sid}
    runs = [r for r in meta.get("checks_run", []) if r["check"] not in {x["check"] for x in results}]
    meta["checks_run"] = runs + results
    meta["base_commit_of_last_run"] = subprocess.run(["git", "-C", "/repo", "rev-parse", "HEAD"], stdout=subprocess.PIPE, text=True).stdout.strip()
    meta["caught_by"] = sorted({r["check"].split()[1] for r in meta["checks_run"] if r["caught"]})
    json.dump(meta, open(mp, "w"), indent=1)


if __name__ == "__main__":
    main()
