"""C01 -- incremental builds equal clean builds for every edit history.
Tie: generated edit/build histories on the real binary vs Build.v (exit status, executed multiset,
bytes of every declared output); model-free oracle: after each successful incremental build, a
from-scratch build of the same sources (fresh workspace, fresh cache root) must give identical bytes."""
import json
import vlib, buildlib as bl, histcheck as hc

# (the class nocache-output-hash-ignores-paths, finding C01-F3, is gone: GetNoCacheOutputHash pairs every digest with its
# output; witness_nocache_swap below is the regression history)
GUARDS = [("alias-dep-not-in-key", hc.g_no_alias_deps)]


def raw_workspace(ws, p_in, q_in):
    """commands that do NOT echo their own label into their outputs (plain copies): //p:a and //q:a both write x.out
    from their in.txt; //r:t concatenates the two.  Distinct targets, distinct packages, same package-relative output path."""
    import os
    for pkg, content in (("p", p_in), ("q", q_in)):
        os.makedirs(os.path.join(ws, pkg), exist_ok=True)
        json.dump({"targets": [{"name": "a", "command": "cp in.txt x.out", "inputs": ["in.txt"], "outputs": ["x.out"]}]},
                  open(os.path.join(ws, pkg, "BUILD.json"), "w"))
        open(os.path.join(ws, pkg, "in.txt"), "w").write(content)
    os.makedirs(os.path.join(ws, "r"), exist_ok=True)
    json.dump({"targets": [{"name": "t", "command": "cat ../p/x.out ../q/x.out > t.out", "dependencies": ["//p:a", "//q:a"],
                            "outputs": ["t.out"]}]}, open(os.path.join(ws, "r", "BUILD.json"), "w"))
    open(os.path.join(ws, "grog.toml"), "w").write("")


def witness_dep_swap(out, findings):
    """Model-free (the generator's commands always echo their label, so Build.v cannot express this history): the outputs of
    two dependencies swap contents between two builds; the dependant reads both and must be rebuilt."""
    import os, subprocess
    grog = vlib.build_grog()
    base = os.path.join(vlib.scratch(), "depswap")
    ws, root, ws2, root2 = (os.path.join(base, x) for x in ("ws", "root", "ws2", "root2"))
    for d in (root, root2):
        os.makedirs(d, exist_ok=True)
    run1 = lambda w, r: subprocess.run([grog, "build", "//..."], cwd=w, env=bl.grog_env(r, os.path.join(base, "trace")),
                                       stdout=subprocess.PIPE, stderr=subprocess.PIPE, text=True, timeout=120)
    raw_workspace(ws, "AAA\n", "BBB\n")
    a = run1(ws, root)
    raw_workspace(ws, "BBB\n", "AAA\n")
    b = run1(ws, root)
    raw_workspace(ws2, "BBB\n", "AAA\n")
    cl = run1(ws2, root2)
    rd = lambda w: open(os.path.join(w, "r", "t.out")).read() if os.path.exists(os.path.join(w, "r", "t.out")) else None
    inc, clean = rd(ws), rd(ws2)
    desc = ["//p:a and //q:a: `cp in.txt x.out`; //r:t depends on both: `cat ../p/x.out ../q/x.out > t.out`",
            "p/in.txt=AAA q/in.txt=BBB; grog build //...", "swap: p/in.txt=BBB q/in.txt=AAA; grog build //... (same cache)",
            "from-scratch build of the swapped sources in a fresh workspace and cache root"]
    if a.returncode or b.returncode or cl.returncode:
        out.violation("dependency-swap witness: a build failed (%s %s %s): %s" % (a.returncode, b.returncode, cl.returncode, (a.stderr + b.stderr + cl.stderr)[-300:]),
                      {"description": desc}, no_input=True)
    elif inc != clean:
        what = ("the outputs of two dependencies swap contents (same package-relative output path in two packages): the dependant is served from the "
                "cache with the stale bytes: incremental r/t.out = %r, from-scratch = %r" % (inc, clean))
        f = findings.get("dependency-identity-not-in-key")
        if f:
            out.known(f["id"], what)
        else:
            out.violation(what, {"description": desc, "observed": {"incremental": inc, "clean": clean, "second_build_stdout": b.stdout[-300:] + b.stderr[-300:]}})
    return 3


def witness_nocache_swap(out):
    """Model-free regression history of the former finding C01-F3 (the generator's commands echo the output definition into every
    output, so two outputs of one target never hold each other's bytes in Build.v's histories): a no-cache target with two outputs
    whose contents swap between two builds; its dependant reads both and must be rebuilt (the no-cache output hash used to be
    the hash of the sorted content digests, blind to which output holds which content)."""
    import os, subprocess, shutil
    grog = vlib.build_grog()
    base = os.path.join(vlib.scratch(), "ncswap")
    shutil.rmtree(base, ignore_errors=True)
    ws, root, ws2, root2 = (os.path.join(base, x) for x in ("ws", "root", "ws2", "root2"))

    def render(w, a, b):
        os.makedirs(os.path.join(w, "p"), exist_ok=True)
        json.dump({"targets": [{"name": "n", "command": "cp a.txt x.out && cp b.txt y.out", "inputs": ["a.txt", "b.txt"],
                                "outputs": ["x.out", "y.out"], "tags": ["no-cache"]}]}, open(os.path.join(w, "p", "BUILD.json"), "w"))
        open(os.path.join(w, "p", "a.txt"), "w").write(a)
        open(os.path.join(w, "p", "b.txt"), "w").write(b)
        os.makedirs(os.path.join(w, "r"), exist_ok=True)
        json.dump({"targets": [{"name": "t", "command": "cat ../p/x.out ../p/y.out > t.out", "dependencies": ["//p:n"],
                                "outputs": ["t.out"]}]}, open(os.path.join(w, "r", "BUILD.json"), "w"))
        open(os.path.join(w, "grog.toml"), "w").write("")
    for d in (root, root2):
        os.makedirs(d, exist_ok=True)
    run1 = lambda w, r: subprocess.run([grog, "build", "//..."], cwd=w, env=bl.grog_env(r, os.path.join(base, "trace")),
                                       stdout=subprocess.PIPE, stderr=subprocess.PIPE, text=True, timeout=120)
    render(ws, "AAA\n", "BBB\n")
    a = run1(ws, root)
    first = open(os.path.join(ws, "r", "t.out")).read() if os.path.exists(os.path.join(ws, "r", "t.out")) else None
    render(ws, "BBB\n", "AAA\n")
    b = run1(ws, root)
    render(ws2, "BBB\n", "AAA\n")
    cl = run1(ws2, root2)
    rd = lambda w: open(os.path.join(w, "r", "t.out")).read() if os.path.exists(os.path.join(w, "r", "t.out")) else None
    inc, clean = rd(ws), rd(ws2)
    desc = ["//p:n (tag no-cache): `cp a.txt x.out && cp b.txt y.out`; //r:t depends on it: `cat ../p/x.out ../p/y.out > t.out`",
            "p/a.txt=AAA p/b.txt=BBB; grog build //...", "swap: p/a.txt=BBB p/b.txt=AAA; grog build //... (same cache)",
            "from-scratch build of the swapped sources in a fresh workspace and cache root"]
    obs = {"first": first, "incremental": inc, "clean": clean, "second_build_output": (b.stdout + b.stderr)[-400:]}
    if a.returncode or b.returncode or cl.returncode:
        out.violation("no-cache swap witness: a build failed (%s %s %s): %s" % (a.returncode, b.returncode, cl.returncode,
                      (a.stderr + b.stderr + cl.stderr)[-300:]), {"description": desc, "observed": obs}, no_input=True)
    elif first == clean:
        out.violation("no-cache swap witness is vacuous: the swap does not change the dependant's output", {"description": desc, "observed": obs},
                      no_input=True)
    elif inc != clean:
        out.violation("the two outputs of a no-cache dependency swap contents: the dependant is served from the cache with the stale bytes "
                      "(the no-cache output hash does not tell which output holds which content): incremental r/t.out = %r, from-scratch = %r"
                      % (inc, clean), {"description": desc, "observed": obs})
    shutil.rmtree(base, ignore_errors=True)
    return 3


def witness_restore_fault(out):
    """Model-free: an I/O fault in the middle of restoring a cached directory output (the workspace hits a file-size limit while
    a 300 kB file is copied back).  The faulted build may fail; if it reports success, and in any case the next fault-free
    build, every output must be byte-identical to a from-scratch build (a truncated restore must not be taken for a hit and
    must not poison the results of dependants)."""
    import os, subprocess, resource, shutil
    grog = vlib.build_grog()
    base = os.path.join(vlib.scratch(), "restorefault")
    shutil.rmtree(base, ignore_errors=True)
    ws, root, ws2, root2 = (os.path.join(base, x) for x in ("ws", "root", "ws2", "root2"))

    def render(w, fmt):
        for pkg, body in (("gen", {"targets": [{"name": "gen", "inputs": ["in.txt"], "outputs": ["dir::out"],
                                               "command": "rm -rf out && mkdir -p out && head -c 300000 /dev/zero | tr '\\0' g > out/big.txt && cat in.txt > out/small.txt"}]}),
                          ("use", {"targets": [{"name": "use", "inputs": ["fmt.txt"], "outputs": ["sum.txt"], "dependencies": ["//gen:gen"],
                                               "command": "cksum < ../gen/out/big.txt > sum.txt && cat ../gen/out/small.txt fmt.txt >> sum.txt"}]})):
            os.makedirs(os.path.join(w, pkg), exist_ok=True)
            json.dump(body, open(os.path.join(w, pkg, "BUILD.json"), "w"))
        open(os.path.join(w, "gen", "in.txt"), "w").write("input\n")
        open(os.path.join(w, "use", "fmt.txt"), "w").write(fmt)
        open(os.path.join(w, "grog.toml"), "w").write("")
    for d in (root, root2):
        os.makedirs(d, exist_ok=True)

    def run1(w, r, limit=None):
        pre = (lambda: resource.setrlimit(resource.RLIMIT_FSIZE, (limit, limit))) if limit else None
        return subprocess.run([grog, "build", "//..."], cwd=w, env=bl.grog_env(r, os.path.join(base, "trace")), preexec_fn=pre,
                              stdout=subprocess.PIPE, stderr=subprocess.PIPE, text=True, timeout=120)
    rd = lambda w, rel: open(os.path.join(w, rel), "rb").read() if os.path.isfile(os.path.join(w, rel)) else None
    obs = lambda w: {rel: (lambda b: None if b is None else (len(b), b[-60:].decode("latin-1")))(rd(w, rel))
                     for rel in ("gen/out/big.txt", "gen/out/small.txt", "use/sum.txt")}
    render(ws, "v1\n")
    b1 = run1(ws, root)
    shutil.rmtree(os.path.join(ws, "gen", "out"), ignore_errors=True)
    render(ws, "v2\n")
    b2 = run1(ws, root, limit=65536)
    after2 = obs(ws)
    b3 = run1(ws, root)
    after3 = obs(ws)
    render(ws2, "v2\n")
    cl = run1(ws2, root2)
    clean = obs(ws2)
    desc = ["//gen:gen writes dir::out (big.txt 300000 bytes, small.txt); //use:use depends on it and writes sum.txt = cksum of big.txt + small.txt + fmt.txt",
            "build 1; rm -rf gen/out; edit use/fmt.txt; build 2 with RLIMIT_FSIZE=65536 (the restore of big.txt breaks half way); build 3 without the limit",
            "from-scratch build of the same sources in a fresh workspace and cache root"]
    rp = {"description": desc, "observed": {"rc": [b1.returncode, b2.returncode, b3.returncode, cl.returncode], "after_build_2": after2,
                                           "after_build_3": after3, "clean": clean, "build2_output": (b2.stdout + b2.stderr)[-500:]}}
    if b1.returncode or cl.returncode or b3.returncode:
        out.violation("restore-fault witness: a fault-free build failed (rc %s)" % rp["observed"]["rc"], rp, no_input=True)
    elif b2.returncode == 0 and after2 != clean:
        out.violation("a build during which the restore of a cached directory output hit an I/O error reported success with outputs that "
                      "differ from the from-scratch build: %s vs %s" % (after2, clean), rp)
    elif after3 != clean:
        out.violation("after a build in which the restore of a cached directory output hit an I/O error, the next fault-free build serves "
                      "outputs that differ from the from-scratch build: %s vs %s" % (after3, clean), rp)
    shutil.rmtree(base, ignore_errors=True)
    return 2


def witness_cache_write_fault(out):
    """Model-free: the cache volume is full while a build STORES a 300 kB output (RLIMIT_FSIZE on grog; the command lifts its own soft
    limit, so the output in the workspace is complete).  That build may fail.  Then: fault-free build; edit; build; edit back; build
    (a cache hit that restores the blob) -- after every successful build the output must be what a from-scratch build writes: a blob
    whose write stopped half way must never be taken for the stored output."""
    import os, subprocess, resource, shutil
    grog = vlib.build_grog()
    base = os.path.join(vlib.scratch(), "cachewritefault")
    shutil.rmtree(base, ignore_errors=True)
    ws, root = os.path.join(base, "ws"), os.path.join(base, "root")
    os.makedirs(ws); os.makedirs(root)
    cmd = "ulimit -S -f unlimited; { cat in.txt; head -c 300000 /dev/zero | tr '\\0' g; cat in.txt; } > out.bin"
    json.dump({"targets": [{"name": "t", "inputs": ["in.txt"], "outputs": ["out.bin"], "command": cmd}]}, open(os.path.join(ws, "BUILD.json"), "w"))
    open(os.path.join(ws, "grog.toml"), "w").write("")
    want = lambda v: (v + "g" * 300000 + v).encode()

    def run1(limit=None):
        pre = (lambda: resource.setrlimit(resource.RLIMIT_FSIZE, (limit, resource.RLIM_INFINITY))) if limit else None
        return subprocess.run([grog, "build", "//..."], cwd=ws, env=bl.grog_env(root, os.path.join(base, "trace")), preexec_fn=pre,
                              stdout=subprocess.PIPE, stderr=subprocess.PIPE, text=True, timeout=120)
    obs = []
    bad = None
    for k, (v, limit) in enumerate([("A\n", 65536), ("A\n", None), ("B\n", None), ("A\n", None), ("B\n", None)]):
        open(os.path.join(ws, "in.txt"), "w").write(v)
        if k >= 2 and os.path.exists(os.path.join(ws, "out.bin")):
            os.unlink(os.path.join(ws, "out.bin"))        # a fresh checkout: the output has to come from the cache or from the command
        p = run1(limit)
        got = open(os.path.join(ws, "out.bin"), "rb").read() if os.path.isfile(os.path.join(ws, "out.bin")) else None
        obs.append({"build": k, "input": v, "file_size_limit": limit, "rc": p.returncode, "output_bytes": None if got is None else len(got),
                    "output_is_clean_build_output": got == want(v)})
        if p.returncode == 0 and got != want(v) and bad is None:
            bad = k
        if p.returncode != 0 and limit is None and bad is None:
            bad = -k
    rp = {"description": ["//:t writes out.bin = in.txt + 300000 x 'g' + in.txt (the command lifts its soft file-size limit)",
                          "build 0 under RLIMIT_FSIZE=65536 soft (grog's write of the blob into the cache breaks half way); build 1; "
                          "in.txt := B, rm out.bin, build 2; in.txt := A, rm out.bin, build 3 (restores the blob of A); in.txt := B, rm, build 4"],
          "observed": obs}
    if bad is not None and bad >= 0:
        out.violation("build %d of a history whose first build hit a full cache volume while storing the output succeeds but leaves %s bytes "
                      "instead of the from-scratch output" % (bad, obs[bad]["output_bytes"]), rp)
    elif bad is not None:
        out.violation("cache-write-fault witness: the fault-free build %d failed" % -bad, rp, no_input=True)
    shutil.rmtree(base, ignore_errors=True)
    return len(obs)


def witness_fingerprint_shift(out):
    """Model-free history for the clause "never served to a target whose fingerprint differs" at the one place the generated
    histories do not reach (they edit fingerprint VALUES): the text of the fingerprint moves across the key/value boundary and
    across the entry boundary while every naive rendering (k=v joined by commas) stays the same.  The target must execute again
    after each edit (seed C01q: entries encoded as k+"="+v)."""
    import os, subprocess, shutil
    grog = vlib.build_grog()
    base = os.path.join(vlib.scratch(), "fpshift")
    shutil.rmtree(base, ignore_errors=True)
    ws, root = os.path.join(base, "ws"), os.path.join(base, "root")
    os.makedirs(os.path.join(ws, "p")); os.makedirs(root)
    open(os.path.join(ws, "grog.toml"), "w").write("")
    log = os.path.join(base, "runs.log")
    fps = [{"flags": "a=b"}, {"flags=a": "b"}, {"flags": "a", "x": "b,y=c"}, {"flags": "a", "x": "b", "y": "c"}, {"flags": "a,x=b", "y": "c"}]
    counts, fails = [], []
    for fp in fps:
        json.dump({"targets": [{"name": "t", "command": "echo run >> %s; echo fixed > t.out" % log, "outputs": ["t.out"], "fingerprint": fp}]},
                  open(os.path.join(ws, "p", "BUILD.json"), "w"))
        r = subprocess.run([grog, "build", "//p:t"], cwd=ws, env=bl.grog_env(root, os.path.join(base, "trace")),
                           stdout=subprocess.PIPE, stderr=subprocess.PIPE, text=True, timeout=120)
        if r.returncode:
            fails.append((fp, (r.stdout + r.stderr)[-300:]))
        counts.append(len(open(log).read().split()) if os.path.exists(log) else 0)
    desc = ["//p:t: `echo run >> <log>; echo fixed > t.out`, outputs [t.out], one cache root",
            "grog build //p:t once per fingerprint, in this order: %s" % json.dumps(fps)]
    obs = {"executions_after_each_build": counts}
    if fails:
        out.violation("fingerprint shift witness: a build failed: %s" % (fails[0],), {"description": desc, "observed": obs}, no_input=True)
    else:
        for i in range(1, len(fps)):
            if counts[i] == counts[i - 1]:
                out.violation("a target whose fingerprint changed from %s to %s is served from the cache (the text moved across a key/value or "
                              "entry boundary; the key does not tell the two fingerprints apart)" % (json.dumps(fps[i - 1]), json.dumps(fps[i])),
                              {"description": desc, "observed": obs})
                break
    shutil.rmtree(base, ignore_errors=True)
    return len(fps)


def witness_revert_inplace(out):
    """Model-free: a command that rewrites its output IN PLACE (`cat in > out`, no rm: the same inode is truncated and refilled) and
    a history that keeps returning to an earlier state: v1, v2, v1 (restored from the cache), v3 (a miss: rewrites the restored file
    in place), v1 (restored again).  Every build must leave what a from-scratch build of that state leaves: a restored file must
    not share storage with the cache entry it came from."""
    import os, subprocess, shutil
    grog = vlib.build_grog()
    base = os.path.join(vlib.scratch(), "revertinplace")
    shutil.rmtree(base, ignore_errors=True)
    ws, root = os.path.join(base, "ws"), os.path.join(base, "root")
    os.makedirs(ws); os.makedirs(root)
    wide_cmd = "mkdir -p w; for i in $(seq 1 101); do { echo $i; cat in.txt; } > w/f$i; done"
    json.dump({"targets": [{"name": "t", "inputs": ["in.txt"], "outputs": ["out.txt", "dir::d"],
                            "command": "cat in.txt > out.txt; mkdir -p d; cat in.txt in.txt > d/twice.txt"},
                           # a directory output with more files than any plausible limit on concurrent restores (32, 64)
                           {"name": "w", "inputs": ["in.txt"], "outputs": ["dir::w"], "command": wide_cmd},
                           {"name": "u", "dependencies": [":t"], "outputs": ["u.txt"], "command": "cat out.txt d/twice.txt > u.txt"}]},
              open(os.path.join(ws, "BUILD.json"), "w"))
    open(os.path.join(ws, "grog.toml"), "w").write("")
    env = bl.grog_env(root, os.path.join(base, "trace"))
    seq = ["v1", "v2", "v1", "v3", "v1", "v2", "v3"]
    obs = []
    for k, v in enumerate(seq):
        open(os.path.join(ws, "in.txt"), "w").write("content %s\n" % v)
        p = subprocess.run([grog, "build", "//..."], cwd=ws, env=env, stdout=subprocess.PIPE, stderr=subprocess.PIPE, text=True, timeout=120)
        rd = lambda f: open(os.path.join(ws, f)).read() if os.path.exists(os.path.join(ws, f)) else None
        c = "content %s\n" % v
        wdir = os.path.join(ws, "w")
        wfiles = sorted(os.listdir(wdir)) if os.path.isdir(wdir) else []
        wbad = [f for f in wfiles if rd("w/" + f) != "%s\n%s" % (f[1:], c)]
        got = {"rc": p.returncode, "out.txt": rd("out.txt"), "d/twice.txt": rd("d/twice.txt"), "u.txt": rd("u.txt"),
               "w: files": len(wfiles), "w: files with other content": wbad[:5]}
        want = {"rc": 0, "out.txt": c, "d/twice.txt": c + c, "u.txt": c + c + c,      # what a from-scratch build of this state writes
                "w: files": 101, "w: files with other content": []}
        obs.append({"input": v, "observed": got})
        if got != want:
            out.violation("build %d of the history %s (commands rewrite their outputs in place) leaves %s; a from-scratch build of this state "
                          "leaves %s" % (k, seq, got, want),
                          {"description": ["//:t: cat in.txt > out.txt; cat in.txt in.txt > d/twice.txt (dir::d); //:u reads both; //:w writes 101 files into dir::w",
                                           "in.txt takes the values %s with a build after each, one cache" % seq], "observed": obs})
            break
    shutil.rmtree(base, ignore_errors=True)
    return len(obs)


def run(out, tier):
    n_clean, n_full = (40, 40) if tier == "quick" else (600, 900)
    plans = [("witness-alias", hc.witness_alias_change()), ("witness-file-boundary", hc.witness_file_boundary())]
    plans.append(("witness-glob-syntax", hc.witness_glob_syntax()))
    # byte-shift edits (a byte moves from the end of one input file to the start of the next) are part of BOTH streams: the key
    # encoding is framed (C09_injective), such an edit changes the key and the target is rebuilt (former finding C01-F2)
    plans += [("clean", hc.plan_edits(hc.CLEAN, nedits=3))] * n_clean
    plans += [("full", hc.plan_edits(hc.FULL, nedits=3))] * n_full
    batch = hc.run_batch(plans, vlib.seed())
    findings = {f["class"]: f for f in vlib.known_findings("C01")}
    oracle_evals = witness_dep_swap(out, findings)
    oracle_evals += witness_nocache_swap(out)
    oracle_evals += witness_fingerprint_shift(out)
    oracle_evals += witness_restore_fault(out)
    oracle_evals += witness_revert_inplace(out)
    oracle_evals += witness_cache_write_fault(out)
    for name, h, notes, m in batch:
        for note in notes:
            if note[0] == "plan-error":
                raise RuntimeError("plan error in %s: %s" % (name, note[1]))
            if note[0] != "clean-ref":
                continue
            bi, ref = note[1], note[2]
            b = h.builds[bi]
            if b["rc"] != 0 or ref["rc"] != 0:
                continue
            paths, _ = bl.selected_outputs(h.snap if bi == len(h.builds) - 1 else [o[1] for o in h.ops if o[0] == "S"][-1], None)
            oracle_evals += 1
            diff = [p for p in b["ws"] if p in ref["ws"] and b["ws"][p] != ref["ws"][p]]
            if diff:
                p = diff[0]
                predicted = bi < len(m) and all(bl.norm_state(b["ws"][x]) == bl.norm_state(m[bi]["ws"].get(x, "A")) for x in diff)
                hc.decide(out, "C01", findings, h,
                          "incremental build differs from the from-scratch build at %s (incremental %s..., clean %s...)" % (
                              p, bytes.fromhex(b["ws"][p][1:])[-40:] if b["ws"][p].startswith("F") else b["ws"][p],
                              bytes.fromhex(ref["ws"][p][1:])[-40:] if ref["ws"][p].startswith("F") else ref["ws"][p]),
                          predicted, GUARDS)
        # second clause: an edit of a target's own state must re-execute it (no hit for a different state)
        # is decided by the executed-set correspondence below (the model re-executes exactly on key change)
    builds = hc.report_correspondence(out, "C01", batch)
    st, nontriv = hc.stats(batch)
    out.cov.update({
        "evaluations": st["builds"] + oracle_evals,
        "distinct_nontrivial": len(nontriv),
        "rule": "random workspaces (2-5 targets, aliases, file and dir:: outputs, literal and glob inputs with excludes, fingerprints, "
                "nested packages, no-cache targets) and histories of 3 edits with a build after each (+ a no-op rebuild), run on the real "
                "binary with one persistent GROG_ROOT and through Build.run_history; two streams: 'clean' (all guards of the partial "
                "theorem hold by construction) and 'full' (aliases, sub-directory outputs, no-cache); both with adversarial byte-shift "
                "edits, plus the witness histories (alias change, byte moved across an input-file boundary, the two outputs of a no-cache "
                "dependency swapping contents: all must rebuild); "
                "non-trivial = at least two source/taint/perturb operations and two builds; distinct = distinct op lists",
        "samples": hc.sample(batch, 3),
        "traces_validated_against_impl": st["histories"],
        "clean_reference_builds": oracle_evals,
        "input_distribution": st,
    })
    out.assumptions += ["generated commands are deterministic functions of label, command text, declared inputs and the declared outputs of "
                        "direct (alias-resolved) dependencies; output bytes are an injective rendering of what was read",
                        "targets are processed by the model in a topological order; schedule independence is argued in DESIGN.md section 4",
                        "digest function idealised as injective in the model (interned); real xxh3 collisions are outside the claim"]
    hc.cleanup(batch)
    # input patterns (`inputs:` / `exclude_inputs:` globs): Glob.v against resolveInputs + doublestar.Glob (properties/C01_glob.v)
    import c01_glob
    c01_glob.glob_stage(out, tier)


def replay(out, path):
    rp = json.load(open(path))["replay"]
    if rp.get("stage") == "glob":
        import c01_glob as cg
        drv = vlib.build_driver("glob")
        h = vlib.build_harness("glob", extra_overlay=cg.INJECT)
        line = ("isglob\t" + cg.hx(rp["pattern"])) if rp["kind"] == "isglob" else "%s\t%s\t%s" % (rp["kind"], cg.hx(rp["pattern"]), cg.hx(rp["path"]))
        print(json.dumps(rp, indent=1))
        if rp["kind"] in ("isglob", "match"):
            impl, mod = cg.both(h, drv, [line])
            print("now: implementation %s, model %s" % (impl[0], mod[0]))
        return
    print(json.dumps(rp.get("description"), indent=1))
    print("observed:", json.dumps(rp.get("observed"), indent=1)[:3000])
    print("re-run ./check C01 with the same VERIF_SEED to regenerate this history on the current tree")
