"""C01 -- incremental builds equal clean builds for every edit history.
Tie: generated edit/build histories on the real binary vs Build.v (exit status, executed multiset,
bytes of every declared output); model-free oracle: after each successful incremental build, a
from-scratch build of the same sources (fresh workspace, fresh cache root) must give identical bytes."""
import json
import vlib, buildlib as bl, histcheck as hc

GUARDS = [("alias-dep-not-in-key", hc.g_no_alias_deps), ("key-collision", hc.g_key_injective),
          ("nocache-output-hash-ignores-paths", hc.g_no_nocache_multiout_dep)]


def run(out, tier):
    n_clean, n_full = (40, 40) if tier == "quick" else (600, 900)
    plans = [("witness-alias", hc.witness_alias_change()), ("witness-file-boundary", hc.witness_file_boundary())]
    plans += [("clean", hc.plan_edits(hc.CLEAN, nedits=3, forbid=("byte moved",)))] * n_clean
    plans += [("full", hc.plan_edits(hc.FULL, nedits=3))] * n_full
    batch = hc.run_batch(plans, vlib.seed())
    findings = {f["class"]: f for f in vlib.known_findings("C01")}
    oracle_evals = 0
    for name, h, notes, m in batch:
        for note in notes:
            if note[0] == "plan-error":
                raise RuntimeError("plan error in %s: %s" % (name, note[1]))
            if note[0] != "clean-ref":
                continue
            bi, ref = note[1], note[2]
            b = h.builds[bi]
            if b["rc"] != 0 or ref["rc"] != 0:
                continue
            paths, _ = bl.selected_outputs(h.snap if bi == len(h.builds) - 1 else [o[1] for o in h.ops if o[0] == "S"][-1], None)
            oracle_evals += 1
            diff = [p for p in b["ws"] if p in ref["ws"] and b["ws"][p] != ref["ws"][p]]
            if diff:
                p = diff[0]
                predicted = bi < len(m) and all(bl.norm_state(b["ws"][x]) == bl.norm_state(m[bi]["ws"].get(x, "A")) for x in diff)
                hc.decide(out, "C01", findings, h,
                          "incremental build differs from the from-scratch build at %s (incremental %s..., clean %s...)" % (
                              p, bytes.fromhex(b["ws"][p][1:])[-40:] if b["ws"][p].startswith("F") else b["ws"][p],
                              bytes.fromhex(ref["ws"][p][1:])[-40:] if ref["ws"][p].startswith("F") else ref["ws"][p]),
                          predicted, GUARDS)
        # second clause: an edit of a target's own state must re-execute it (no hit for a different state)
        # is decided by the executed-set correspondence below (the model re-executes exactly on key change)
    builds = hc.report_correspondence(out, "C01", batch)
    st, nontriv = hc.stats(batch)
    out.cov.update({
        "evaluations": st["builds"] + oracle_evals,
        "distinct_nontrivial": len(nontriv),
        "rule": "random workspaces (2-5 targets, aliases, file and dir:: outputs, literal and glob inputs with excludes, fingerprints, "
                "nested packages, no-cache targets) and histories of 3 edits with a build after each (+ a no-op rebuild), run on the real "
                "binary with one persistent GROG_ROOT and through Build.run_history; two streams: 'clean' (all guards of the partial "
                "theorem hold by construction) and 'full' (aliases, sub-directory outputs, no-cache, adversarial byte-shift edits); "
                "non-trivial = at least two source/taint/perturb operations and two builds; distinct = distinct op lists",
        "samples": hc.sample(batch, 3),
        "traces_validated_against_impl": st["histories"],
        "clean_reference_builds": oracle_evals,
        "input_distribution": st,
    })
    out.assumptions += ["generated commands are deterministic functions of label, command text, declared inputs and the declared outputs of "
                        "direct (alias-resolved) dependencies; output bytes are an injective rendering of what was read",
                        "targets are processed by the model in a topological order; schedule independence is argued in DESIGN.md section 4",
                        "digest function idealised as injective in the model (interned); real xxh3 collisions are outside the claim"]
    hc.cleanup(batch)


def replay(out, path):
    rp = json.load(open(path))["replay"]
    print(json.dumps(rp.get("description"), indent=1))
    print("observed:", json.dumps(rp.get("observed"), indent=1)[:3000])
    print("re-run ./check C01 with the same VERIF_SEED to regenerate this history on the current tree")
