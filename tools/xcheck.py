"""Extraction cross-check (DESIGN.md 2.3 "Model side", section 3 "Extraction ... cross-checked per run").

Every check talks to an extracted OCaml model through a line-protocol driver (coq/extract/Extract_<engine>.v ->
ocaml/gen/<engine>/model.ml + ocaml/wire.ml + ocaml/<engine>/driver.ml).  Trusted there: Coq's extraction, the OCaml
compiler and the driver glue (wire format -> extracted values, result printer).  run(engine, out, n, seed) takes that
trust away on a seeded sample:

  1. n seeded inputs in the engine's wire format (generators imported from the tools/cXX.py / *lib.py modules);
  2. the OCaml driver's answers (vlib.build_driver / vlib.run_lines);
  3. a generated cases.v (scratch directory) holding the SAME inputs as Gallina terms -- translated from the wire line
     by python code below, independently of the driver's OCaml parser -- and the driver's answer lines as expected
     strings; coq/xcheck/Show_<engine>.v re-implements the driver's result printer in Gallina; Coq evaluates the
     model's own definitions with vm_compute and prints the indices of the cases whose text differs: `bad = []`.

    python3 tools/xcheck.py <engine>|all [n] [seed]      exit 1 on a mismatch
"""
import fcntl, os, re, sys, time

sys.path.insert(0, os.path.dirname(os.path.abspath(__file__)))
import vlib
from vlib import hx, unhx

XDIR = os.path.join(vlib.COQ, "xcheck")

# property -> engines whose extraction it relies on
ENGINE_OF = {
    "C01": ["build"], "C02": ["build"], "C03": ["walker"], "C04": ["walker", "tree"], "C05": ["walker", "build"],
    "C06": ["tree"], "C07": ["store"], "C08": ["store"], "C09": ["main"], "C10": ["lock"], "C11": ["analysis"],
    "C12": ["select"], "C13": ["build"], "C14": ["build"], "C15": ["build"], "C16": ["loader"], "C17": ["main"],
    "C18": ["walker"], "C19": ["select"], "C20": ["select"],
}


# ------------------------------------------------------------------ Gallina term emitters
def gs(b):
    """A byte string as a Gallina term of type Str.str (helpers of coq/xcheck/XSupport.v): L "short printable ascii",
    bytes [..]%N for a few arbitrary bytes, and for everything longer P [..]%uint63: seven bytes per primitive integer
    literal, least significant first, closed by a byte 1 (the front end of coqc costs 30-50 us per token of a literal)."""
    if isinstance(b, str):
        b = b.encode("latin-1")
    if len(b) <= 20 and all(0x20 <= c < 0x7f for c in b):
        return 'L "%s"' % b.decode("ascii").replace('"', '""')
    if len(b) <= 4:
        return "bytes [%s]%%N" % "; ".join(str(c) for c in b)
    ints = ["0x01" + b[i:i + 7][::-1].hex() for i in range(0, len(b), 7)]
    parts = ["P [%s]%%uint63" % "; ".join(ints[i:i + 3000]) for i in range(0, len(ints), 3000)]   # long lists overflow coqc's stack
    return " ++ ".join(parts)


def gh(h):
    """A hex wire field ("-" = empty) as a Gallina string."""
    return gs(unhx(h))


def par(t):
    if re.fullmatch(r"[A-Za-z0-9_.']+", t) or (t[0] in "[(" and balanced_atom(t)):
        return t
    return "(%s)" % t


def balanced_atom(t):
    """True when t is one token, one bracketed group or one parenthesised group (so it needs no parentheses)."""
    if t[0] not in "[(":
        return True
    depth, instr = 0, False
    for i, c in enumerate(t):
        if c == '"':
            instr = not instr
        elif not instr and c in "[(":
            depth += 1
        elif not instr and c in "])":
            depth -= 1
            if depth == 0 and i != len(t) - 1:
                return False
    return True


def gl(items):
    return "[%s]" % "; ".join(items)


def gpair(a, b):
    return "(%s, %s)" % (a, b)


def gopt(x):
    return "None" if x is None else "Some %s" % par(x)


def gb(x):
    return "true" if x else "false"


def gn(n):
    n = int(n)
    if not 0 <= n <= 5000:
        raise ValueError("numeral out of the range the cross-check emits: %d" % n)
    return str(n)


def app(f, *args):
    return " ".join([f] + [par(a) for a in args])


def gline(s):
    """An answer line of a driver as a Gallina string (tab separated fields)."""
    f = s.split("\t")
    return gs(f[0]) if len(f) == 1 else "tabs %s" % gl([gs(x) for x in f])


def csv(s, sep=","):
    return [] if s in ("", None) else s.split(sep)


class Unsupported(Exception):
    """The wire line uses a driver command the Gallina mirror does not cover (skipped, counted)."""


# ------------------------------------------------------------------ running one engine
ENGINES = {}   # name -> {"imports": "<Grog modules>", "gen": f(rng, n) -> wire lines, "conv": f(line, st) -> case term}


def compile_show(engine):
    """coqc coq/xcheck/XSupport.v and Show_<engine>.v when their .vo is older than the source or than any theories/*.vo."""
    th = os.path.join(vlib.COQ, "theories")
    vos = [os.path.join(th, f) for f in os.listdir(th) if f.endswith(".vo")]
    with open(os.path.join(XDIR, ".lock"), "w") as lk:
        fcntl.flock(lk, fcntl.LOCK_EX)
        prev = []
        for mod in ("XSupport", "Show_" + engine):
            src, vo = os.path.join(XDIR, mod + ".v"), os.path.join(XDIR, mod + ".vo")
            if vlib.newer(vos + prev + [src], vo):
                vlib.run(["coqc", "-Q", "theories", "Grog", "-Q", "xcheck", "GrogX", "xcheck/%s.v" % mod],
                         cwd=vlib.COQ, timeout=900, check=True)
            prev.append(vo)


def cases_v(engine, defs, cases):
    """cases: [(case term, expected term)]."""
    E = ENGINES[engine]
    src = ["From Coq Require Import String NArith Uint63.", "From Grog Require Import %s." % E["imports"],
           "From GrogX Require Import XSupport Show_%s." % engine, ""]
    src += defs
    for i, (c, want) in enumerate(cases):
        src.append("Definition c%d : case := %s." % (i, c))
        src.append("Definition w%d : str := %s." % (i, want))
    src.append("Definition cases : list (case * str) := %s." % gl(["(c%d, w%d)" % (i, i) for i in range(len(cases))]))
    src += ["Definition ncases := Eval vm_compute in length cases.", "Print ncases.",
            "Definition bad := Eval vm_compute in mismatches run_case cases.", "Print bad.",
            "Definition got := Eval vm_compute in match bad with [] => [] | i :: _ => match nth_error cases i with "
            "Some (c, _) => map N_of_ascii (run_case c) | None => [] end end.", "Print got.", ""]
    return "\n".join(src)


def run(engine, out=None, n=200, seed=None):
    """Cross-check engine on n seeded cases; returns the report (also stored in out.cov["extraction_crosscheck"][engine])."""
    E = ENGINES[engine]
    if out is None:
        out = vlib.Outcome("XCHECK", "quick")
    seed = vlib.seed() if seed is None else seed
    lines = E["gen"](vlib.Rng(seed ^ 0x5843), n)
    drv = os.environ.get("XCHECK_DRIVER_" + engine.upper()) or vlib.build_driver(engine)   # override: development aid
    t = time.time()
    rc, outs, err = vlib.run_lines(drv, lines)
    t_ocaml = time.time() - t
    if rc != 0 or len(outs) != len(lines):
        raise RuntimeError("xcheck %s: driver failed rc=%s, %d answers for %d lines: %s" % (engine, rc, len(outs), len(lines), err[-500:]))
    st = {"defs": []}
    cases, idx, skipped = [], [], {}
    for i, (l, o) in enumerate(zip(lines, outs)):
        try:
            cases.append((E["conv"](l, st), gline(o)))
            idx.append(i)
        except Unsupported as e:
            skipped[str(e)] = skipped.get(str(e), 0) + 1
    compile_show(engine)
    d = os.path.join(vlib.scratch(), "xcheck-%s-%d" % (engine, time.time_ns()))
    os.makedirs(d)
    with open(os.path.join(d, "cases.v"), "w") as f:
        f.write(cases_v(engine, st["defs"], cases))
    t = time.time()
    p = vlib.run(["coqc", "-Q", os.path.join(vlib.COQ, "theories"), "Grog", "-Q", XDIR, "GrogX", "cases.v"], cwd=d, timeout=900)
    t_coq = time.time() - t
    rep = {"engine": engine, "seed": seed, "cases": len(cases), "not_covered": skipped, "ocaml_s": round(t_ocaml, 2),
           "coqc_s": round(t_coq, 2), "bytes_cases_v": os.path.getsize(os.path.join(d, "cases.v")),
           "what": "answers of the extracted OCaml model (through its driver) = vm_compute of the same definitions inside Coq"}
    cls = {}
    for i in idx:
        k = "%s -> %s" % (re.split(r"[\t ]", lines[i])[0][:12], re.split(r"[\t |;=,]", outs[i])[0][:12])
        cls[k] = cls.get(k, 0) + 1
    rep["answer_classes"] = dict(sorted(cls.items(), key=lambda kv: -kv[1])[:16])
    rep["distinct_answers"] = len({outs[i] for i in idx})
    mb = re.search(r"\bbad\s*=\s*\[([^\]]*)\]", p.stdout)
    mn = re.search(r"\bncases\s*=\s*(\d+)", p.stdout)
    if p.returncode != 0 or not mb or not mn or int(mn.group(1)) != len(cases):
        rep["error"] = "cases.v was not evaluated: exit %s %s" % (p.returncode, (p.stderr or p.stdout)[-1500:])
        keep = os.path.join(vlib.OUT, "replays", "xcheck-%s-%d.v" % (engine, seed))
        os.makedirs(os.path.dirname(keep), exist_ok=True)
        os.replace(os.path.join(d, "cases.v"), keep)
        out.violation("extraction cross-check: cases.v of engine %s could not be evaluated by coqc (%s)" % (engine, rep["error"][:200]),
                      {"engine": engine, "seed": seed, "cases_v": keep, "stderr": p.stderr[-3000:]}, no_input=True)
    else:
        bad = [int(x) for x in re.findall(r"\d+", mb.group(1))]
        rep["mismatches"] = len(bad)
        if bad:
            i = idx[bad[0]]
            mg = re.search(r"\bgot\s*=\s*\[([^\]]*)\]", p.stdout)
            got = bytes(int(x) for x in re.findall(r"(\d+)(?:%N)?", mg.group(1))).decode("latin-1") if mg else None
            k = next((j for j, (a, b) in enumerate(zip(outs[i], got or "")) if a != b), min(len(outs[i]), len(got or "")))
            rep["first"] = {"case": bad[0], "input_line": lines[i], "ocaml": outs[i], "coq": got,
                            "differ_at": {"offset": k, "ocaml": outs[i][max(0, k - 30):k + 30], "coq": (got or "")[max(0, k - 30):k + 30]},
                            "gallina": cases[bad[0]][0][:2000], "driver": drv}
            out.violation("extraction cross-check: %d of %d cases of engine %s differ between the extracted OCaml model and "
                          "vm_compute inside Coq, e.g. input %r: ocaml=%r coq=%r" % (len(bad), len(cases), engine, lines[i][:300],
                                                                                outs[i][:200], (got or "")[:200]),
                          {"engine": engine, "seed": seed, "n": n, "mismatching_cases": bad[:50], "first": rep["first"],
                           "replay_cmd": "python3 tools/xcheck.py %s %d %d" % (engine, n, seed)}, no_input=True)
    out.cov.setdefault("extraction_crosscheck", {})[engine] = rep
    return rep


# ------------------------------------------------------------------ engine main (Label.v, HashKey.v; ocaml/main/driver.ml)
def gen_main(rng, n):
    import c09, c17
    strings, extra, extra_curs = c17.gen_cases("quick", rng)
    lat = c17.lat
    lines = ["universe\t" + ",".join("%s:%s" % (hx(lat(p)), hx(lat(q))) for p, q in c17.UNIVERSE)]
    coll = [s for _, a, b in c09.collision_pairs() for s in (a, b)]
    k = 0
    while len(lines) < n:
        k += 1
        kind = k % 3
        if kind == 2:
            st = coll.pop() if coll and rng.chance(1, 3) else c09.rand_state(rng, adversarial=rng.chance(1, 3))
            lines.append(c09.line(st, "-", "r"))
            continue
        cur, shape = rng.choice(c17.CURS + extra_curs), rng.below(10)
        pkg, nm = rng.choice(c17.UNIV_PKGS + ["a/..", "x"]), rng.choice(c17.UNIV_NAMES + ["a.b-c_D9", "a b", ""])
        if shape < 4:     # mostly well-formed labels / patterns over the universe's packages and names
            s = rng.choice([":" + nm, "//%s:%s" % (pkg, nm), "//" + pkg] if kind == 0 and rng.chance(3, 4) else
                           ["//%s/..." % pkg, "//%s/...:%s" % (pkg, nm), "//...:" + nm, "//...", "//%s..." % pkg, "//%s/" % pkg, ":" + nm])
        elif shape < 7:   # the exhaustive small-alphabet strings of C17 behind a label / pattern prefix
            s = rng.choice(["//", ":", "//a:", "//a/"]) + rng.choice(strings)
        else:             # raw: exhaustive strings and random bytes
            s = rng.choice(strings) if rng.chance(1, 2) else rng.choice(extra)
        lines.append("%s\t%s\t%s" % ("label" if kind == 0 else "pattern", hx(lat(cur)), hx(lat(s))))
        if k % 50 == 0:   # the universe is driver state: change it on the way
            u = rng.sample(c17.UNIVERSE, 1 + rng.below(len(c17.UNIVERSE)))
            lines.append("universe\t" + ",".join("%s:%s" % (hx(lat(p)), hx(lat(q))) for p, q in u))
    return lines[:n]


def pairs(s):
    return [e.split(":") for e in csv(s)]


def conv_main(line, st):
    f = line.split("\t")
    if f[0] == "label":
        return app("CLabel", gh(f[1]), gh(f[2]))
    if f[0] == "universe":
        name = "u%d" % len(st["defs"])
        st["defs"].append("Definition %s : list label := %s." % (name, gl([app("mkLabel", gh(p), gh(q)) for p, q in pairs(f[1])])))
        st["univ"] = name
        return app("CUniverse", name)
    if f[0] == "pattern":
        return app("CPattern", st.get("univ", "[]"), gh(f[1]), gh(f[2]))
    if f[0] == "key":
        _algo, _root, pkg, name, cmd, ins, files, outs, deps, fp, multi = f[1:]
        return app("CKey", gh(pkg), gh(name), gh(cmd), gl([gh(x) for x in csv(ins)]),
                   gl([gpair(gh(p), gopt(None if c == "!" else gh(c))) for p, c in pairs(files)]),
                   gl([gpair(gh(t), gh(i)) for t, i in pairs(outs)]), gl([gh(x) for x in csv(deps)]),
                   gl([gpair(gh(k), gh(v)) for k, v in pairs(fp)]), gb(multi == "1"))
    raise Unsupported(f[0])


ENGINES["main"] = {"imports": "Str Label HashKey", "gen": gen_main, "conv": conv_main}


def intern(st, b, minlen=3):
    """Long strings are defined once per cases.v (s<k>) and referred to by name."""
    if len(b) < minlen:
        return gs(b)
    tab = st.setdefault("strtab", {})
    if b not in tab:
        tab[b] = "s%d" % len(tab)
        st["defs"].append("Definition %s : str := %s." % (tab[b], gs(b)))
    return tab[b]


# ------------------------------------------------------------------ engine build (Build.v; ocaml/build/driver.ml)
BUILD_FEATURES = {"alias": True, "dirs": True, "glob": True, "subdir": True, "nocache": True, "fail": True, "check": True,
                  "multiout": True, "fp": True}


def gen_build(rng, n):
    """Whole histories (sources, builds under every configuration, edits, taints, perturbed outputs, destroyed checks, cache
    faults) over buildlib's snapshot generator with every feature on; nothing is run on the real binary here."""
    import copy
    import buildlib as bl
    lines, tags = [], {}
    for _ in range(n):
        ops, seen_np = [], set()

        def sources(snap):
            ops.append(("S", copy.deepcopy(snap)))
            for p in bl.nl_paths(snap):
                if p not in seen_np:
                    seen_np.add(p)
                    ops.append(("P", p, ["N"]))

        def build(snap):
            cfg = {"mode": "min" if rng.chance(1, 3) else "all", "cache": not rng.chance(1, 6), "ff": rng.chance(1, 6)}
            k = len(snap["nodes"])
            roots = list(range(k)) if rng.chance(2, 3) else rng.sample(list(range(k)), 1 + rng.below(2))
            ops.append(("B", cfg, roots))
        feat = dict(BUILD_FEATURES, fail=rng.chance(1, 3), check=rng.chance(1, 3), nocache=rng.chance(1, 2))
        snap = bl.gen_snapshot(rng, ntargets=2 + rng.below(3), features=feat)
        for t in snap["nodes"]:
            if t["k"] == "t" and t.get("check") and rng.chance(1, 4):
                t["beh"] = "x"
        sources(snap)
        build(snap)
        for _step in range(1 + rng.below(3)):
            ts = [i for i, x in enumerate(snap["nodes"]) if x["k"] == "t"]
            t = snap["nodes"][rng.choice(ts)]
            k = rng.below(9)
            if k <= 2:
                snap, _why = bl.edit_snapshot(rng, snap, {"fail": feat["fail"]})
                sources(snap)
            elif k == 3:
                ops.append(("T", [snap["nodes"][i] for i in rng.sample(ts, 1 + rng.below(2))]))
            elif k in (4, 5) and t["outs"]:
                kind, path = rng.choice(t["outs"])
                ops.append(("P", bl.full(t["pkg"], path), rng.choice([["A"], ["N"], ["W"], ["F", "-"], ["F", hx("MOD")]])))
            elif k == 6:
                ops.append(("X", t))
            elif k == 7 and t["outs"]:
                ops.append(("D", bl.full(t["pkg"], rng.choice(t["outs"])[1])))
            elif k == 8:
                ops.append(("R",))
            build(snap)
        line = bl.enc_history(ops)
        # the command text (a shell script of 0.5-1 kB) is opaque to the model: it only enters the key.  Most of them are replaced
        # by a short tag (same text <-> same tag); every eighth keeps its bytes
        for o in ops:
            for t in (o[1]["nodes"] if o[0] == "S" else []):
                if t["k"] == "t":
                    full = bl.command_text(o[1], t).encode("latin-1")
                    if full not in tags:
                        tags[full] = full if rng.chance(1, 8) else b"cmd%d" % len(tags)
                    line = line.replace(" %s " % hx(full), " %s " % hx(tags[full]))
        lines.append(line)
    return lines


class Toks:
    """The token stream of a history line, read the way ocaml/build/driver.ml reads it."""

    def __init__(self, line, st):
        self.t, self.i, self.st = [x for x in line.split(" ") if x], 0, st

    def next(self):
        self.i += 1
        return self.t[self.i - 1]

    def nat(self):
        return int(self.next())

    def str(self):
        return intern(self.st, unhx(self.next()))

    def boolean(self):
        return gb(self.next() == "1")

    def listof(self, f):
        return gl([f() for _ in range(self.nat())])

    def label(self):
        p = self.str()
        return app("mkLabel", p, self.str())


def conv_build(line, st):
    T = Toks(line, st)

    def node():
        k = T.next()
        if k == "a":
            lab = T.label()
            return app("NAlias", lab, gn(T.nat()))
        assert k == "t", k
        lab, cmd, salt = T.label(), T.str(), T.str()
        ins = T.listof(T.str)
        outs = T.listof(lambda: app("mkOut", {"file": "OFile", "dir": "ODir"}[T.next()], T.str()))
        deps = T.listof(lambda: gn(T.nat()))
        fp = T.listof(lambda: gpair(T.str(), T.str()))
        nocache, multi = T.boolean(), T.boolean()
        b = T.next()
        beh = {"n": "BNormal", "f": "BFail", "a": "BFailAfter", "x": "BBreakCheck"}[b] if b != "s" else app("BSkipOutput", gn(T.nat()))
        return app("NTarget", app("mkTD", lab, cmd, salt, ins, outs, deps, fp, nocache, multi, beh, T.boolean()))

    def op():
        k = T.next()
        if k == "S":
            nodes = T.listof(node)
            return app("OpSources", app("mkSrc", nodes, T.listof(lambda: gpair(T.str(), T.str()))))
        if k == "T":
            return app("OpTaint", T.listof(T.label))
        if k == "P":
            path, s = T.str(), T.next()
            ps = {"A": "PAbsent", "N": "PNoParent", "W": "PWrongKind"}[s] if s != "F" else app("PFile", T.str())
            return app("OpPerturb", path, ps)
        if k == "X":
            return app("OpDestroyExt", T.label())
        if k == "D":
            return app("OpDropBlob", T.str())
        if k == "R":
            return "OpDropResults"
        assert k == "B", k
        cfg = app("mkCfg", {"all": "LAll", "min": "LMinimal"}[T.next()], T.boolean(), T.boolean())
        return app("OpBuild", cfg, T.listof(lambda: gn(T.nat())))
    ops = T.listof(op)
    assert T.i == len(T.t), "trailing tokens"
    return ops


ENGINES["build"] = {"imports": "Str Label HashKey Build", "gen": gen_build, "conv": conv_build}


# ------------------------------------------------------------------ engine analysis (Path.v, Analysis.v; ocaml/analysis/driver.ml)
def gen_analysis(rng, n):
    import c11
    spell = list(c11.spelling_stream())
    paths = c11.path_lines("quick")
    graphs = list(c11.product_sample(rng, n // 4)) + list(c11.random_graphs(rng, n // 5)) + rng.sample(spell, n // 8)
    graphs += rng.sample(list(c11.triple_stream()), n // 16)
    lines = [c11.wire(g, root=rng.choice([c11.ROOT, c11.ROOT, "/r", "/w//ws/"])) for g in graphs]
    lines += rng.sample(paths, max(0, n - len(lines)))
    return rng.shuffle(lines)[:n]


def rootc(h):
    return gl([gs(c) for c in unhx(h).split(b"/") if c])


def conv_analysis(line, st):
    f = line.split("\t")
    s = lambda h: intern(st, unhx(h), 6)
    lab = lambda p, q: app("mkLabel", s(p), s(q))
    if f[0] == "graph":
        nodes = []
        for nd in f[2:]:
            x = nd.split("|")
            if x[0] == "A":
                nodes.append(app("NAlias", lab(x[1], x[2]), lab(x[3], x[4])))
                continue
            _, pkg, name, deps, ins, outs, bn, tags, nocmd = x
            nodes.append(app("NTarget", app("mkTarget", lab(pkg, name), gl([lab(p, q) for p, q in pairs(deps)]),
                                            gl([s(i) for i in csv(ins)]),
                                            gl([app("mkOut", {"f": "OFile", "d": "ODir", "k": "ODocker"}[t], s(i)) for t, i in pairs(outs)]),
                                            s(bn), gl([s(t) for t in csv(tags)]), gb(nocmd == "1"))))
        return app("CGraph", rootc(f[1]), gl(nodes))
    one = {"clean": "CClean", "esc": "CEsc"}
    two = {"join": "CJoin", "within": "CWithin", "outpath": "COutpath"}
    if f[0] in one and len(f) == 2:
        return app(one[f[0]], s(f[1]))
    if f[0] in two and len(f) == 3:
        return app(two[f[0]], s(f[1]), s(f[2]))
    if f[0] == "ws" and len(f) == 4:
        return app("CWs", rootc(f[1]), s(f[2]), s(f[3]))
    raise Unsupported(f[0])


ENGINES["analysis"] = {"imports": "Str Label Path Analysis", "gen": gen_analysis, "conv": conv_analysis}


# ------------------------------------------------------------------ engine select (Graph.v, Select.v; ocaml/select/driver.ml)
def gen_select(rng, n):
    import c20
    import selectlib as sl
    lines = []
    while len(lines) < n:
        nodes = sl.gen_world(rng, nmax=10, files=rng.chance(1, 2), nocache=rng.chance(1, 4))
        en = sl.enc_nodes(nodes)
        for _ in range(4):
            cfg = sl.gen_cfg(rng, nodes)
            if rng.chance(1, 15):
                cfg["pats"] = cfg["pats"] + [rng.choice(["nocolon", "//a:", ":a b", "//a...b"])]
            ec, k, i = sl.enc_cfg(cfg), rng.below(12), rng.below(len(nodes))
            if k < 5:
                lines.append("%s\t%s\t%s" % (["select", "selectspec", "selcost", "roots", "list"][k], en, ec))
            elif k < 8:
                lines.append("%s\t%s\t-\t%d" % (["ancestors", "descendants", "direct"][k - 5], en, i))
            else:
                lines.append(c20.model_line(nodes, c20.gen_queries(rng, nodes, 1)[0]))
        g = rng.choice([sl.ladder(1 + rng.below(3), 1 + rng.below(4)), sl.chain(1 + rng.below(12)), sl.dense(2 + rng.below(7)),
                        sl.dense_k(4 + rng.below(8), 3), [nd["deps"] for nd in nodes], [[1], [0]], [[], [5]]])
        top, bottom = (len(g) - 1, 0) if rng.chance(3, 4) else (rng.below(len(g)), rng.below(len(g)))
        lines.append("%s\t%s\t%d\t%d" % (rng.choice(["cost", "costv", "sets"]), sl.graphspec(g), top, bottom))
        if rng.chance(1, 3):
            lines.append(rng.choice(["family\tladder\t%d\t%d" % (rng.below(4), rng.below(5)), "family\tchain\t%d" % rng.below(14)]))
    return lines[:n]


def conv_select(line, st):
    f = line.split("\t")
    s = lambda h: intern(st, unhx(h), 6)
    dots = lambda x: csv(x, ".")

    def nodes(x):
        ns, g = [], []
        for nd in csv(x):
            k, pkg, name, tags, plats, bn, deps, inputs = nd.split(":")
            ns.append(app("mkNode", "KAlias" if k == "a" else "KTarget", app("mkLabel", s(pkg), s(name)), gl([s(t) for t in dots(tags)]),
                          gl([s(t) for t in dots(plats)]), gb(bn == "1"), gl([s(t) for t in dots(inputs)])))
            g.append(gl([gn(d) for d in dots(deps)]))
        return gl(ns), gl(g)

    def cfg(x):
        cur, pats, tags, excl, ty, plat, al = x.split(":")
        return app("mkRaw", s(cur), gl([s(t) for t in dots(pats)]), gl([s(t) for t in dots(tags)]), gl([s(t) for t in dots(excl)]),
                   {"test": "TestOnly", "no_test": "NonTestOnly", "bin_output": "BinOutput", "all": "AllTargets"}[ty], s(plat), gb(al == "1"))

    def graph(x):
        return gl([gl([] if ds == "-" else [gn(d) for d in dots(ds)]) for ds in csv(x)])
    c3 = {"select": "CSelect", "selectspec": "CSelectSpec", "selcost": "CSelCost", "roots": "CRoots", "list": "CList", "listq": "CListq"}
    if f[0] in c3 and len(f) == 3:
        return app(c3[f[0]], *nodes(f[1]), cfg(f[2]))
    cg = {"ancestors": "CAncestors", "descendants": "CDescendants", "direct": "CDirect"}
    if f[0] in cg and len(f) == 4:
        return app(cg[f[0]], nodes(f[1])[1], gn(f[3]))
    if f[0] in ("deps", "rdeps") and len(f) == 5:
        return app("CDeps" if f[0] == "deps" else "CRdeps", *nodes(f[1]), cfg(f[2]), gn(f[3]), gb(f[4] == "1"))
    if f[0] == "owners" and len(f) == 4:
        return app("COwners", nodes(f[1])[0], gl([s(t) for t in dots(f[3])]))
    cc = {"cost": "CCost", "costv": "CCostv", "sets": "CSets"}
    if f[0] in cc and len(f) == 4:
        return app(cc[f[0]], graph(f[1]), gn(f[2]), gn(f[3]))
    if f[:2] == ["family", "ladder"] and len(f) == 4:
        return app("CLadder", gn(f[2]), gn(f[3]))
    if f[:2] == ["family", "chain"] and len(f) == 3:
        return app("CChain", gn(f[2]))
    raise Unsupported(f[0])


ENGINES["select"] = {"imports": "Str Label Graph Select", "gen": gen_select, "conv": conv_select}


# ------------------------------------------------------------------ engine store (Store.v; ocaml/store/driver.ml)
def gen_store(rng, n):
    import store_ops as so
    lines = []
    while len(lines) < n:
        k = rng.below(10)
        if k < 6:     # op sequences over two machines, a remote and the fault lists (small contents only: every observation prints them)
            line = so.gen_case_(rng, local_only=rng.chance(1, 4))
            if rng.chance(1, 4):
                f = line.split("\t")
                f.insert(2, "lf=" + ",".join(rng.choice(["o", "o", "e", "l"]) for _ in range(1 + rng.below(4))))
                line = "\t".join(f)
            if rng.chance(1, 12):
                line += "\tx:A:w:what"
            lines.append(line)
        elif k < 9:   # Layer 1: per target blob / result writes, a schedule and a fault per step
            ts = []
            for _ in range(1 + rng.below(3)):
                ops = []
                for _ in range(rng.below(4)):
                    c = rng.choice(so.CONTENTS + [b"0123456789"])
                    cut = sorted(rng.below(len(c) + 1) for _ in range(rng.below(3)))
                    chunks = [c[a:b] for a, b in zip([0] + cut, cut + [len(c)])] if rng.chance(3, 4) else []
                    if rng.chance(2, 3):
                        ops.append("B:%s" % so.dg(c)[:8] + (":" + ".".join(hx(x) for x in chunks) if chunks or rng.chance(1, 2) else ""))
                    else:
                        refs = ".".join(so.dg(x)[:8] for x in rng.sample(so.CONTENTS, rng.below(3)))
                        ops.append("R:%s" % rng.choice(so.RKEYS) + (":" + refs if refs or rng.chance(1, 2) else ""))
                ts.append(";".join(ops))
            nsteps = sum(t.count(";") + 1 for t in ts) * 7
            sched = ",".join(str(rng.below(len(ts) + 1)) for _ in range(rng.below(nsteps + 1))) or "-"
            faults = "".join("1" if rng.chance(1, 10) else "0" for _ in range(rng.below(nsteps + 1))) or "-"
            lines.append("steps\t%s\t%s\t%s" % ("|".join(ts), sched, faults))
        else:
            ks = lambda: ",".join(rng.sample(["k1", "k2", "k3", "k4"], rng.below(4))) or "-"
            lines.append("guard\t%s\t%s" % (ks(), ks()))
    return lines[:n]


def conv_store(line, st):
    f = line.split("\t")
    s = lambda b: intern(st, b if isinstance(b, bytes) else b.encode("latin-1"), 6)
    path = {"cas": "PCas", "target": "PTarget", "taint": "PTaint"}
    mach, mode = {"A": "MA", "B": "MB"}, {"l": "Local", "w": "Wrapped"}

    def wop(o):
        x = o.split(":")
        if len(x) == 2 and x[0] == "reset":
            return "Some %s" % par(app("Reset", mach[x[1]]))
        a = None
        if x[0] == "b" and len(x) >= 6:
            m, md, verb, p, k, rest = x[1], x[2], x[3], path[x[4]], s(x[5]), x[6:]
            a = {"get": lambda: app("AGet", p, k), "ex": lambda: app("AExists", p, k), "del": lambda: app("ADelete", p, k),
                 "set": lambda: app("ASet", p, k, s(unhx(rest[0]))) if len(rest) == 1 else None}.get(verb, lambda: None)()
        elif x[0] == "c" and len(x) >= 5:
            m, md, verb, d, rest = x[1], x[2], x[3], s(x[4]), x[5:]
            a = {"load": lambda: app("AGet", "PCas", d), "ex": lambda: app("ACasExists", d),
                 "write": lambda: app("ACasWrite", d, s(unhx(rest[0]))) if len(rest) == 1 else None}.get(verb, lambda: None)()
        elif x[0] == "r" and len(x) >= 5:
            m, md, verb, k, rest = x[1], x[2], x[3], s(x[4]), x[5:]
            a = {"load": lambda: app("AGet", "PTarget", k), "has": lambda: app("AExists", "PTarget", k),
                 "write": lambda: app("ASet", "PTarget", k, s("r" + rest[0].replace(".", ",") if rest else "r")) if len(rest) <= 1 else None
                 }.get(verb, lambda: None)()
        else:
            return "None"
        if a is None:
            raise Unsupported("store op the driver rejects")
        return "Some %s" % par(app("Do", mach[m], mode[md], a))
    if f[0] == "case":
        rf = [] if f[1] in ("-", "") else [{"n": "FNone", "f": "FFail", "m": "FFail", "e": "FEarly", "4": "FNotFound"}[x] for x in f[1].split(",")]
        ops, lf = f[2:], []
        if ops and len(ops[0]) > 3 and ops[0].startswith("lf="):
            lf, ops = [{"o": "LOk", "e": "LEarly", "l": "LLate"}[x] for x in csv(ops[0][3:])], ops[1:]
        return app("CCase", gl(rf), gl(lf), gl([wop(o) for o in ops]))
    if f[0] == "steps" and len(f) == 4:
        def l1(o):
            x = o.split(":")
            if x[0] == "B" and len(x) in (2, 3):
                return app("OBlob", s(x[1]), gl([s(unhx(c)) for c in (x[2].split(".") if len(x) == 3 and x[2] else [])]))
            if x[0] == "R" and len(x) in (2, 3):
                return app("OResult", s(x[1]), gl([s("r" + (x[2].replace(".", ",") if len(x) == 3 else ""))]))
            raise Unsupported("l1 op")
        opss = gl([gl([l1(o) for o in t.split(";")] if t else []) for t in f[1].split("|")])
        return app("CSteps", opss, gl([gn(x) for x in csv("" if f[2] == "-" else f[2])]), gl([gb(c == "1") for c in ("" if f[3] == "-" else f[3])]))
    if f[0] == "guard" and len(f) == 3:
        return app("CGuard", *[gl([s(k) for k in csv("" if x == "-" else x)]) for x in f[1:]])
    raise Unsupported(f[0])


ENGINES["store"] = {"imports": "Str Store", "gen": gen_store, "conv": conv_store}


# ------------------------------------------------------------------ engine tree (Tree.v; ocaml/tree/driver.ml)
def gen_tree(rng, n):
    import copy
    import c06
    lines = []
    shapes = [[], [("d", b"e", [("d", b"f", [])])], [("d", b"x", [("f", b"a", b"same", 0o644)]), ("d", b"y", [("f", b"a", b"same", 0o755)])]]
    while len(lines) < n:
        k = rng.below(10)
        if k < 7:
            names = c06.NAMES + (c06.BAD_NAMES if rng.chance(1, 8) else [])
            tree = shapes.pop() if shapes and rng.chance(1, 8) else c06.gen_tree(rng, names=names, budget=4 + rng.below(14))
            dest = c06.perturb(rng, tree, rng.choice(c06.STATES))
            blobs = ["T"] + sorted(set(c06.contents_of(tree)))
            missing = rng.sample(blobs, rng.below(min(3, len(blobs)) + 1)) if rng.chance(1, 2) else []
            lines.append("dir\t%s\t%s\t%s" % (c06.tree_field(tree, True), c06.dest_field(dest, True), c06.fault_field(missing, True)))
        else:
            c, md = rng.choice(c06.CONTENTS), rng.choice(c06.MODES)
            other = bytes((b ^ 1) for b in c) if c else b"other"
            dest = rng.choice([("A",), ("P",), ("F", c, 0o644), ("F", c, 0o755), ("F", other, rng.choice(c06.MODES)), ("D", []),
                               ("D", [("f", b"f", b"x", 0o644)])])
            lines.append("file\t%s\t%d\t%s\t%d" % (hx(c06.sha16(c)), 1 if md & 0o111 else 0, c06.dest_field(dest, True), rng.below(2)))
    return lines[:n]


def conv_tree(line, st):
    f = line.split("\t")
    s = lambda h: intern(st, unhx(h), 6)
    ex = lambda m: gb(int(m, 8) & 0o111 != 0)

    def entries(toks):
        """the entries of one directory; consumes up to and including the closing 'u'"""
        es = []
        while toks:
            t = toks.pop(0)
            if t == "u":
                break
            x = t.split(":")
            if x[0] == "f" and len(x) == 4:
                es.append(gpair(s(x[1]), app("File", s(x[2]), ex(x[3]))))
            elif x[0] == "l" and len(x) == 3:
                es.append(gpair(s(x[1]), app("Link", s(x[2]))))
            elif x[0] == "d" and len(x) == 2:
                es.append(gpair(s(x[1]), app("Dir", entries(toks))))
            else:
                raise Unsupported("tree token the driver rejects")
        return gl(es)

    def tree(x):
        if x == "-":
            return "[]"
        toks = x.split(",")
        es = entries(toks)
        if toks:
            raise Unsupported("trailing tree tokens")
        return es

    def dest(x):
        if x in ("A", "P"):
            return {"A": "DAbsent", "P": "DParentAbsent"}[x]
        if x == "D":
            return app("DDir", "[]")
        if x.startswith("D,") and len(x) > 2:
            return app("DDir", tree(x[2:]))
        y = x.split(":")
        if y[0] == "F" and len(y) == 3:
            return app("DFile", s(y[1]), ex(y[2]))
        raise Unsupported("dest the driver rejects")
    if f[0] == "dir" and len(f) == 4:
        missing = [] if f[3] == "-" else [gopt(None if m == "T" else s(m)) for m in f[3].split(",")]
        return app("CDir", app("Dir", tree(f[1])), dest(f[2]), gl(missing))
    if f[0] == "file" and len(f) == 5:
        return app("CFile", s(f[1]), gb(f[2] == "1"), dest(f[3]), gb(f[4] == "1"))
    raise Unsupported(f[0])


ENGINES["tree"] = {"imports": "Str Tree", "gen": gen_tree, "conv": conv_tree}


# ------------------------------------------------------------------ command line
def main(argv):
    if len(argv) < 2 or (argv[1] != "all" and argv[1] not in ENGINES):
        print("usage: xcheck.py <%s|all> [n] [seed]" % "|".join(ENGINES))
        return 2
    n = int(argv[2]) if len(argv) > 2 else 200
    seed = int(argv[3]) if len(argv) > 3 else None
    out = vlib.Outcome("XCHECK", "quick")
    for e in (list(ENGINES) if argv[1] == "all" else [argv[1]]):
        t = time.time()
        r = run(e, out, n, seed)
        print("xcheck %-8s cases=%d mismatches=%s ocaml=%.2fs coqc=%.2fs wall=%.2fs not_covered=%s%s" % (
            e, r["cases"], r.get("mismatches", "?"), r["ocaml_s"], r["coqc_s"], time.time() - t, r["not_covered"] or "-",
            (" ERROR " + r["error"]) if "error" in r else ""))
        if r.get("first"):
            for k in ("input_line", "ocaml", "coq"):
                print("   first mismatch %-10s %r" % (k, (r["first"][k] or "")[:400]))
            print("   texts differ at %r" % r["first"]["differ_at"])
    for v in out.violations:
        print("VIOLATION", v["what"][:600])
    return 1 if out.violations else 0


if __name__ == "__main__":
    sys.exit(main(sys.argv))
