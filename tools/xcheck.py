"""Extraction cross-check (DESIGN.md 2.3 "Model side", section 3 "Extraction ... cross-checked per run").

Every check talks to an extracted OCaml model through a line-protocol driver (coq/extract/Extract_<engine>.v ->
ocaml/gen/<engine>/model.ml + ocaml/wire.ml + ocaml/<engine>/driver.ml).  Trusted there: Coq's extraction, the OCaml
compiler and the driver glue (wire format -> extracted values, result printer).  run(engine, out, n, seed) takes that
trust away on a seeded sample:

  1. n seeded inputs in the engine's wire format (generators imported from the tools/cXX.py / *lib.py modules);
  2. the OCaml driver's answers (vlib.build_driver / vlib.run_lines);
  3. a generated cases.v (scratch directory) holding the SAME inputs as Gallina terms -- translated from the wire line
     by python code below, independently of the driver's OCaml parser -- and the driver's answer lines as expected
     strings; coq/xcheck/Show_<engine>.v re-implements the driver's result printer in Gallina; Coq evaluates the
     model's own definitions with vm_compute and prints the indices of the cases whose text differs: `bad = []`.

A mismatch (or a cases.v coqc rejects, or a driver that crashes) is a violation with no_input=True; the report goes to
out.cov["extraction_crosscheck"][engine].  The Gallina printers mirror the drivers as they are: whoever changes what a
driver prints changes coq/xcheck/Show_<engine>.v with it (the cross-check says so on the next run).

    xcheck.run_for(pid, out, tier)                       the hook of ./check: every engine of ENGINE_OF[pid]
    python3 tools/xcheck.py <engine>|all [n] [seed]      prints the report, exit 1 on a mismatch
    XCHECK_DRIVER_<ENGINE>=<binary>                      development aid: cross-check a tampered copy of a driver
"""
import fcntl, os, re, sys, time

sys.path.insert(0, os.path.dirname(os.path.abspath(__file__)))
import vlib
from vlib import hx, unhx

XDIR = os.path.join(vlib.COQ, "xcheck")

# property -> engines whose extraction it relies on
ENGINE_OF = {
    "C01": ["build", "glob"], "C02": ["build"], "C03": ["walker"], "C04": ["walker", "tree"], "C05": ["walker", "build"],
    "C06": ["tree"], "C07": ["store"], "C08": ["store"], "C09": ["main"], "C10": ["lock"], "C11": ["analysis"],
    "C12": ["select"], "C13": ["build"], "C14": ["build"], "C15": ["build"], "C16": ["loader"], "C17": ["main"],
    "C18": ["walker"], "C19": ["select"], "C20": ["select"],
}


class Unsupported(Exception):
    """The wire line has no Gallina counterpart: a driver command without a mirror, an input the driver itself rejects, a
    numeral too large to be written as a nat literal.  The line is left out and counted in the report (not_covered)."""


# ------------------------------------------------------------------ Gallina term emitters
def gs(b):
    """A byte string as a Gallina term of type Str.str (helpers of coq/xcheck/XSupport.v): L "short printable ascii",
    bytes [..]%N for a few arbitrary bytes, and for everything longer P [..]%uint63: seven bytes per primitive integer
    literal, least significant first, closed by a byte 1 (the front end of coqc costs 30-50 us per token of a literal)."""
    if isinstance(b, str):
        b = b.encode("latin-1")
    if len(b) <= 20 and all(0x20 <= c < 0x7f for c in b):
        return 'L "%s"' % b.decode("ascii").replace('"', '""')
    if len(b) <= 4:
        return "bytes [%s]%%N" % "; ".join(str(c) for c in b)
    ints = ["0x01" + b[i:i + 7][::-1].hex() for i in range(0, len(b), 7)]
    parts = ["P [%s]%%uint63" % "; ".join(ints[i:i + 3000]) for i in range(0, len(ints), 3000)]   # long lists overflow coqc's stack
    return " ++ ".join(parts)


def gh(h):
    """A hex wire field ("-" = empty) as a Gallina string."""
    return gs(unhx(h))


def par(t):
    if re.fullmatch(r"[A-Za-z0-9_.']+", t) or (t[0] in "[(" and balanced_atom(t)):
        return t
    return "(%s)" % t


def balanced_atom(t):
    """True when t is one token, one bracketed group or one parenthesised group (so it needs no parentheses)."""
    if t[0] not in "[(":
        return True
    depth, instr = 0, False
    for i, c in enumerate(t):
        if c == '"':
            instr = not instr
        elif not instr and c in "[(":
            depth += 1
        elif not instr and c in "])":
            depth -= 1
            if depth == 0 and i != len(t) - 1:
                return False
    return True


def gl(items):
    return "[%s]" % "; ".join(items)


def gpair(a, b):
    return "(%s, %s)" % (a, b)


def gopt(x):
    return "None" if x is None else "Some %s" % par(x)


def gb(x):
    return "true" if x else "false"


def gn(n):
    n = int(n)
    if not 0 <= n <= 5000:
        raise Unsupported("numeral above 5000")
    return str(n)


def app(f, *args):
    return " ".join([f] + [par(a) for a in args])


def gline(s):
    """An answer line of a driver as a Gallina string (tab separated fields)."""
    f = s.split("\t")
    return gs(f[0]) if len(f) == 1 else "tabs %s" % gl([gs(x) for x in f])


def csv(s, sep=","):
    return [] if s in ("", None) else s.split(sep)


# ------------------------------------------------------------------ running one engine
ENGINES = {}   # name -> {"imports": "<Grog modules>", "gen": f(rng, n) -> wire lines, "conv": f(line, st) -> case term}


def compile_show(engine):
    """coqc coq/xcheck/XSupport.v and Show_<engine>.v when their .vo is older than the source or than any theories/*.vo."""
    th = os.path.join(vlib.COQ, "theories")
    vos = [os.path.join(th, f) for f in os.listdir(th) if f.endswith(".vo")]
    os.makedirs(os.path.join(vlib.OCAML, "_build"), exist_ok=True)
    with open(os.path.join(vlib.OCAML, "_build", ".lock-xcheck"), "w") as lk:
        fcntl.flock(lk, fcntl.LOCK_EX)
        prev = []
        for mod in ("XSupport", "Show_" + engine):
            src, vo = os.path.join(XDIR, mod + ".v"), os.path.join(XDIR, mod + ".vo")
            if vlib.newer(vos + prev + [src], vo):
                vlib.run(["coqc", "-Q", "theories", "Grog", "-Q", "xcheck", "GrogX", "xcheck/%s.v" % mod],
                         cwd=vlib.COQ, timeout=900, check=True)
            prev.append(vo)


def cases_v(engine, defs, cases):
    """cases: [(case term, expected term)]."""
    E = ENGINES[engine]
    src = ["From Coq Require Import String NArith Uint63.", "From Grog Require Import %s." % E["imports"],
           "From GrogX Require Import XSupport Show_%s." % engine, ""]
    src += defs
    for i, (c, want) in enumerate(cases):
        src.append("Definition c%d : case := %s." % (i, c))
        src.append("Definition w%d : str := %s." % (i, want))
    src.append("Definition cases : list (case * str) := %s." % gl(["(c%d, w%d)" % (i, i) for i in range(len(cases))]))
    src += ["Definition ncases := Eval vm_compute in length cases.", "Print ncases.",
            "Definition bad := Eval vm_compute in mismatches run_case cases.", "Print bad.",
            "Definition got := Eval vm_compute in match bad with [] => [] | i :: _ => match nth_error cases i with "
            "Some (c, _) => map N_of_ascii (run_case c) | None => [] end end.", "Print got.", ""]
    return "\n".join(src)


def run(engine, out=None, n=200, seed=None):
    """Cross-check engine on n seeded cases; returns the report (also stored in out.cov["extraction_crosscheck"][engine])."""
    E = ENGINES[engine]
    if out is None:
        out = vlib.Outcome("XCHECK", "quick")
    seed = vlib.seed() if seed is None else seed
    lines = E["gen"](vlib.Rng(seed ^ 0x5843), n)
    drv = os.environ.get("XCHECK_DRIVER_" + engine.upper()) or vlib.build_driver(engine)   # override: development aid
    t = time.time()
    rc, outs, err = vlib.run_lines(drv, lines)
    t_ocaml = time.time() - t
    if rc != 0 or len(outs) != len(lines):
        rep = {"engine": engine, "seed": seed, "cases": 0, "not_covered": {}, "ocaml_s": round(t_ocaml, 2), "coqc_s": 0.0,
               "error": "driver failed: exit %s, %d answers for %d lines: %s" % (rc, len(outs), len(lines), err[-500:])}
        out.violation("extraction cross-check: the OCaml driver of engine %s %s" % (engine, rep["error"][:300]),
                      {"engine": engine, "seed": seed, "first_unanswered_input": lines[len(outs)] if len(outs) < len(lines) else None,
                       "stderr": err[-2000:], "driver": drv}, no_input=True)
        out.cov.setdefault("extraction_crosscheck", {})[engine] = rep
        return rep
    st = {"defs": []}
    cases, idx, skipped = [], [], {}
    for i, (l, o) in enumerate(zip(lines, outs)):
        try:
            if o.startswith(("driver-error", "model-error", "unknown-command", "error ")):
                raise Unsupported("the driver reports " + o.split(" ")[0])
            st["out"] = o
            cases.append((E["conv"](l, st), gline(o)))
            idx.append(i)
        except Unsupported as e:
            skipped[str(e)] = skipped.get(str(e), 0) + 1
    if len(cases) < 0.75 * len(lines):
        out.violation("extraction cross-check: only %d of %d generated inputs of engine %s have a mirror / an answer of the driver (%s)" % (
            len(cases), len(lines), engine, skipped), {"engine": engine, "seed": seed, "not_covered": skipped}, no_input=True)
    try:
        compile_show(engine)
    except RuntimeError as e:    # the mirror no longer type-checks against the model: a record or a function changed shape
        rep = {"engine": engine, "seed": seed, "cases": len(cases), "not_covered": skipped, "ocaml_s": round(t_ocaml, 2), "coqc_s": 0.0,
               "error": "coq/xcheck/Show_%s.v does not compile against the current model: %s" % (engine, str(e)[-1200:])}
        out.violation("extraction cross-check: " + rep["error"][:300], {"engine": engine, "coqc": str(e)[-3000:]}, no_input=True)
        out.cov.setdefault("extraction_crosscheck", {})[engine] = rep
        return rep
    d = os.path.join(vlib.scratch(), "xcheck-%s-%d" % (engine, time.time_ns()))
    os.makedirs(d)
    with open(os.path.join(d, "cases.v"), "w") as f:
        f.write(cases_v(engine, st["defs"], cases))
    t = time.time()
    p = vlib.run(["coqc", "-Q", os.path.join(vlib.COQ, "theories"), "Grog", "-Q", XDIR, "GrogX", "cases.v"], cwd=d, timeout=900)
    t_coq = time.time() - t
    rep = {"engine": engine, "seed": seed, "cases": len(cases), "not_covered": skipped, "ocaml_s": round(t_ocaml, 2),
           "coqc_s": round(t_coq, 2), "bytes_cases_v": os.path.getsize(os.path.join(d, "cases.v")),
           "what": "answers of the extracted OCaml model (through its driver) = vm_compute of the same definitions inside Coq"}
    cls = {}
    for i in idx:
        k = "%s -> %s" % (re.split(r"[\t ]", lines[i])[0][:12], re.split(r"[\t |;=,]", outs[i])[0][:12])
        cls[k] = cls.get(k, 0) + 1
    rep["answer_classes"] = dict(sorted(cls.items(), key=lambda kv: -kv[1])[:16])
    rep["distinct_answers"] = len({outs[i] for i in idx})
    mb = re.search(r"\bbad\s*=\s*\[([^\]]*)\]", p.stdout)
    mn = re.search(r"\bncases\s*=\s*(\d+)", p.stdout)
    if p.returncode != 0 or not mb or not mn or int(mn.group(1)) != len(cases):
        rep["error"] = "cases.v was not evaluated: exit %s %s" % (p.returncode, (p.stderr or p.stdout)[-1500:])
        keep = os.path.join(vlib.OUT, "replays", "xcheck-%s-%d.v" % (engine, seed))
        os.makedirs(os.path.dirname(keep), exist_ok=True)
        os.replace(os.path.join(d, "cases.v"), keep)
        out.violation("extraction cross-check: cases.v of engine %s could not be evaluated by coqc (%s)" % (engine, rep["error"][:200]),
                      {"engine": engine, "seed": seed, "cases_v": keep, "stderr": p.stderr[-3000:]}, no_input=True)
    else:
        bad = [int(x) for x in re.findall(r"\d+", mb.group(1))]
        rep["mismatches"] = len(bad)
        if bad:
            i = idx[bad[0]]
            mg = re.search(r"\bgot\s*=\s*\[([^\]]*)\]", p.stdout)
            got = bytes(int(x) for x in re.findall(r"(\d+)(?:%N)?", mg.group(1))).decode("latin-1") if mg else None
            k = next((j for j, (a, b) in enumerate(zip(outs[i], got or "")) if a != b), min(len(outs[i]), len(got or "")))
            rep["first"] = {"case": bad[0], "input_line": lines[i], "ocaml": outs[i], "coq": got,
                            "differ_at": {"offset": k, "ocaml": outs[i][max(0, k - 30):k + 30], "coq": (got or "")[max(0, k - 30):k + 30]},
                            "gallina": cases[bad[0]][0][:2000], "driver": drv}
            out.violation("extraction cross-check: %d of %d cases of engine %s differ between the extracted OCaml model and "
                          "vm_compute inside Coq, e.g. input %r: ocaml=%r coq=%r" % (len(bad), len(cases), engine, lines[i][:300],
                                                                                outs[i][:200], (got or "")[:200]),
                          {"engine": engine, "seed": seed, "n": n, "mismatching_cases": bad[:50], "first": rep["first"],
                           "replay_cmd": "python3 tools/xcheck.py %s %d %d" % (engine, n, seed)}, no_input=True)
    out.cov.setdefault("extraction_crosscheck", {})[engine] = rep
    return rep


# ------------------------------------------------------------------ engine main (Label.v, HashKey.v; ocaml/main/driver.ml)
def gen_main(rng, n):
    import c09, c17
    strings, extra, extra_curs = c17.gen_cases("quick", rng)
    lat = c17.lat
    lines = ["universe\t" + ",".join("%s:%s" % (hx(lat(p)), hx(lat(q))) for p, q in c17.UNIVERSE)]
    coll = [s for _, a, b in c09.collision_pairs() for s in (a, b)]
    k = 0
    while len(lines) < n:
        k += 1
        kind = k % 3
        if kind == 2:
            st = coll.pop() if coll and rng.chance(1, 3) else c09.rand_state(rng, adversarial=rng.chance(1, 3))
            # the digest table of the line is an input like any other: any function of the content will do here
            lines.append(c09.mline(st, "-", lambda c: "h%d:" % len(c) + c[::-1][:6]))
            continue
        cur, shape = rng.choice(c17.CURS + extra_curs), rng.below(10)
        pkg, nm = rng.choice(c17.UNIV_PKGS + ["a/..", "x"]), rng.choice(c17.UNIV_NAMES + ["a.b-c_D9", "a b", ""])
        if shape < 4:     # mostly well-formed labels / patterns over the universe's packages and names
            s = rng.choice([":" + nm, "//%s:%s" % (pkg, nm), "//" + pkg] if kind == 0 and rng.chance(3, 4) else
                           ["//%s/..." % pkg, "//%s/...:%s" % (pkg, nm), "//...:" + nm, "//...", "//%s..." % pkg, "//%s/" % pkg, ":" + nm])
        elif shape < 7:   # the exhaustive small-alphabet strings of C17 behind a label / pattern prefix
            s = rng.choice(["//", ":", "//a:", "//a/"]) + rng.choice(strings)
        else:             # raw: exhaustive strings and random bytes
            s = rng.choice(strings) if rng.chance(1, 2) else rng.choice(extra)
        lines.append("%s\t%s\t%s" % ("label" if kind == 0 else "pattern", hx(lat(cur)), hx(lat(s))))
        if k % 50 == 0:   # the universe is driver state: change it on the way
            u = rng.sample(c17.UNIVERSE, 1 + rng.below(len(c17.UNIVERSE)))
            lines.append("universe\t" + ",".join("%s:%s" % (hx(lat(p)), hx(lat(q))) for p, q in u))
    return lines[:n]


def pairs(s):
    return [e.split(":") for e in csv(s)]


def conv_main(line, st):
    f = line.split("\t")
    if f[0] == "label":
        return app("CLabel", gh(f[1]), gh(f[2]))
    if f[0] == "universe":
        name = "u%d" % len(st["defs"])
        st["defs"].append("Definition %s : list label := %s." % (name, gl([app("mkLabel", gh(p), gh(q)) for p, q in pairs(f[1])])))
        st["univ"] = name
        return app("CUniverse", name)
    if f[0] == "pattern":
        return app("CPattern", st.get("univ", "[]"), gh(f[1]), gh(f[2]))
    if f[0] == "key":
        _algo, _root, pkg, name, cmd, ins, files, outs, deps, fp, multi = f[1:]
        return app("CKey", gh(pkg), gh(name), gh(cmd), gl([gh(x) for x in csv(ins)]),
                   gl([gpair(gh(e[0]), gopt(None if e[1] == "!" else gpair(gh(e[1]), gh(e[2])))) for e in pairs(files)]),
                   gl([gpair(gh(t), gh(i)) for t, i in pairs(outs)]), gl([gh(x) for x in csv(deps)]),
                   gl([gpair(gh(k), gh(v)) for k, v in pairs(fp)]), gb(multi == "1"))
    raise Unsupported(f[0])


ENGINES["main"] = {"imports": "Str Label HashKey", "gen": gen_main, "conv": conv_main}


def intern(st, b, minlen=3):
    """Long strings are defined once per cases.v (s<k>) and referred to by name."""
    if len(b) < minlen:
        return gs(b)
    tab = st.setdefault("strtab", {})
    if b not in tab:
        tab[b] = "s%d" % len(tab)
        st["defs"].append("Definition %s : str := %s." % (tab[b], gs(b)))
    return tab[b]


# ------------------------------------------------------------------ engine build (Build.v; ocaml/build/driver.ml)
BUILD_FEATURES = {"alias": True, "dirs": True, "glob": True, "subdir": True, "nocache": True, "fail": True, "check": True,
                  "multiout": True, "fp": True}


def gen_build(rng, n):
    """Whole histories (sources, builds under every configuration, edits, taints, perturbed outputs, destroyed checks, cache
    faults) over buildlib's snapshot generator with every feature on; nothing is run on the real binary here."""
    import copy
    import buildlib as bl
    lines, tags = [], {}
    for _ in range(n):
        ops, seen_np = [], set()

        def sources(snap):
            ops.append(("S", copy.deepcopy(snap)))
            for p in bl.nl_paths(snap):
                if p not in seen_np:
                    seen_np.add(p)
                    ops.append(("P", p, ["N"]))

        def build(snap):
            cfg = {"mode": "min" if rng.chance(1, 3) else "all", "cache": not rng.chance(1, 6), "ff": rng.chance(1, 6)}
            k = len(snap["nodes"])
            roots = list(range(k)) if rng.chance(2, 3) else rng.sample(list(range(k)), 1 + rng.below(2))
            ops.append(("B", cfg, roots))
        feat = dict(BUILD_FEATURES, fail=rng.chance(1, 3), check=rng.chance(1, 3), nocache=rng.chance(1, 2))
        snap = bl.gen_snapshot(rng, ntargets=2 + rng.below(3), features=feat)
        for t in snap["nodes"]:
            if t["k"] == "t" and t.get("check") and rng.chance(1, 4):
                t["beh"] = "x"
        sources(snap)
        build(snap)
        for _step in range(1 + rng.below(3)):
            ts = [i for i, x in enumerate(snap["nodes"]) if x["k"] == "t"]
            t = snap["nodes"][rng.choice(ts)]
            k = rng.below(9)
            if k <= 2:
                snap, _why = bl.edit_snapshot(rng, snap, {"fail": feat["fail"]})
                sources(snap)
            elif k == 3:
                ops.append(("T", [snap["nodes"][i] for i in rng.sample(ts, 1 + rng.below(2))]))
            elif k in (4, 5) and t["outs"]:
                kind, path = rng.choice(t["outs"])
                ops.append(("P", bl.full(t["pkg"], path), rng.choice([["A"], ["N"], ["W"], ["F", "-"], ["F", hx("MOD")]])))
            elif k == 6:
                ops.append(("X", t))
            elif k == 7 and t["outs"]:
                ops.append(("D", bl.full(t["pkg"], rng.choice(t["outs"])[1])))
            elif k == 8:
                ops.append(("R",))
            build(snap)
        line = bl.enc_history(ops)
        # the command text (a shell script of 0.5-1 kB) is opaque to the model: it only enters the key.  Most of them are replaced
        # by a short tag (same text <-> same tag); every eighth keeps its bytes
        for o in ops:
            for t in (o[1]["nodes"] if o[0] == "S" else []):
                if t["k"] == "t":
                    full = bl.command_text(o[1], t).encode("latin-1")
                    if full not in tags:
                        tags[full] = full if rng.chance(1, 8) else b"cmd%d" % len(tags)
                    line = line.replace(" %s " % hx(full), " %s " % hx(tags[full]))
        lines.append(line)
    return lines


class Toks:
    """The token stream of a history line, read the way ocaml/build/driver.ml reads it."""

    def __init__(self, line, st):
        self.t, self.i, self.st = [x for x in line.split(" ") if x], 0, st

    def next(self):
        self.i += 1
        return self.t[self.i - 1]

    def nat(self):
        return int(self.next())

    def str(self):
        return intern(self.st, unhx(self.next()))

    def boolean(self):
        return gb(self.next() == "1")

    def listof(self, f):
        return gl([f() for _ in range(self.nat())])

    def label(self):
        p = self.str()
        return app("mkLabel", p, self.str())


def conv_build(line, st):
    T = Toks(line, st)

    def node():
        k = T.next()
        if k == "a":
            lab = T.label()
            return app("NAlias", lab, gn(T.nat()))
        assert k == "t", k
        lab, cmd, salt = T.label(), T.str(), T.str()
        ins = T.listof(T.str)
        outs = T.listof(lambda: app("mkOut", {"file": "OFile", "dir": "ODir"}[T.next()], T.str()))
        deps = T.listof(lambda: gn(T.nat()))
        fp = T.listof(lambda: gpair(T.str(), T.str()))
        nocache, multi = T.boolean(), T.boolean()
        b = T.next()
        beh = {"n": "BNormal", "f": "BFail", "a": "BFailAfter", "x": "BBreakCheck"}[b] if b != "s" else app("BSkipOutput", gn(T.nat()))
        return app("NTarget", app("mkTD", lab, cmd, salt, ins, outs, deps, fp, nocache, multi, beh, T.boolean()))

    def op():
        k = T.next()
        if k == "S":
            nodes = T.listof(node)
            return app("OpSources", app("mkSrc", nodes, T.listof(lambda: gpair(T.str(), T.str()))))
        if k == "T":
            return app("OpTaint", T.listof(T.label))
        if k == "P":
            path, s = T.str(), T.next()
            ps = {"A": "PAbsent", "N": "PNoParent", "W": "PWrongKind"}[s] if s != "F" else app("PFile", T.str())
            return app("OpPerturb", path, ps)
        if k == "X":
            return app("OpDestroyExt", T.label())
        if k == "D":
            return app("OpDropBlob", T.str())
        if k == "R":
            return "OpDropResults"
        assert k == "B", k
        cfg = app("mkCfg", {"all": "LAll", "min": "LMinimal"}[T.next()], T.boolean(), T.boolean())
        return app("OpBuild", cfg, T.listof(lambda: gn(T.nat())))
    ops = T.listof(op)
    assert T.i == len(T.t), "trailing tokens"
    return ops


ENGINES["build"] = {"imports": "Str Label HashKey Build", "gen": gen_build, "conv": conv_build}


# ------------------------------------------------------------------ engine analysis (Path.v, Analysis.v; ocaml/analysis/driver.ml)
def gen_analysis(rng, n):
    import c11
    spell = list(c11.spelling_stream())
    paths = c11.path_lines("quick")
    graphs = list(c11.product_sample(rng, n // 4)) + list(c11.random_graphs(rng, n // 5)) + rng.sample(spell, n // 8)
    graphs += rng.sample(list(c11.triple_stream()), n // 16)
    lines = [c11.wire(g, root=rng.choice([c11.ROOT, c11.ROOT, "/r", "/w//ws/"])) for g in graphs]
    lines += rng.sample(paths, max(0, n - len(lines)))
    return rng.shuffle(lines)[:n]


def rootc(h):
    return gl([gs(c) for c in unhx(h).split(b"/") if c])


def conv_analysis(line, st):
    f = line.split("\t")
    s = lambda h: intern(st, unhx(h), 6)
    lab = lambda p, q: app("mkLabel", s(p), s(q))
    if f[0] == "graph":
        nodes = []
        for nd in f[2:]:
            x = nd.split("|")
            if x[0] == "A":
                nodes.append(app("NAlias", lab(x[1], x[2]), lab(x[3], x[4])))
                continue
            _, pkg, name, deps, ins, outs, bn, tags, nocmd = x
            nodes.append(app("NTarget", app("mkTarget", lab(pkg, name), gl([lab(p, q) for p, q in pairs(deps)]),
                                            gl([s(i) for i in csv(ins)]),
                                            gl([app("mkOut", {"f": "OFile", "d": "ODir", "k": "ODocker"}[t], s(i)) for t, i in pairs(outs)]),
                                            s(bn), gl([s(t) for t in csv(tags)]), gb(nocmd == "1"))))
        return app("CGraph", rootc(f[1]), gl(nodes))
    one = {"clean": "CClean", "esc": "CEsc"}
    two = {"join": "CJoin", "within": "CWithin"}
    if f[0] in one and len(f) == 2:
        return app(one[f[0]], s(f[1]))
    if f[0] in two and len(f) == 3:
        return app(two[f[0]], s(f[1]), s(f[2]))
    if f[0] in ("ws", "outpath") and len(f) == 4:
        return app({"ws": "CWs", "outpath": "COutpath"}[f[0]], rootc(f[1]), s(f[2]), s(f[3]))
    raise Unsupported(f[0])


ENGINES["analysis"] = {"imports": "Str Label Path Analysis", "gen": gen_analysis, "conv": conv_analysis}


# ------------------------------------------------------------------ engine select (Graph.v, Select.v; ocaml/select/driver.ml)
def gen_select(rng, n):
    import c20
    import selectlib as sl
    lines = []
    while len(lines) < n:
        nodes = sl.gen_world(rng, nmax=10, files=rng.chance(1, 2), nocache=rng.chance(1, 4), spell=True)
        en = sl.enc_nodes(nodes)     # inputs as spelled (./f, zz/../f, d//f, d/./f): Path.clean / join_path are exercised through owners
        for _ in range(4):
            cfg = sl.gen_cfg(rng, nodes)
            if rng.chance(1, 15):
                cfg["pats"] = cfg["pats"] + [rng.choice(["nocolon", "//a:", ":a b", "//a...b"])]
            ec, k, i = sl.enc_cfg(cfg), rng.below(12), rng.below(len(nodes))
            if k < 5:
                lines.append("%s\t%s\t%s" % (["select", "selectspec", "selcost", "roots", "list"][k], en, ec))
            elif k < 8:
                lines.append("%s\t%s\t-\t%d" % (rng.choice([["ancestors", "ancestors-paths"], ["descendants", "descendants-paths"], ["direct"]][k - 5]), en, i))
            else:
                ml = c20.model_line(nodes, c20.gen_queries(rng, nodes, 1)[0])
                if ml.startswith("owners\t") and rng.chance(1, 3):
                    ml = "owners-verbatim" + ml[len("owners"):]
                lines.append(ml)
        g = rng.choice([sl.ladder(1 + rng.below(3), 1 + rng.below(4)), sl.chain(1 + rng.below(12)), sl.dense(2 + rng.below(7)),
                        sl.dense_k(4 + rng.below(8), 3), [nd["deps"] for nd in nodes], [[1], [0]], [[], [5]]])
        top, bottom = (len(g) - 1, 0) if rng.chance(3, 4) else (rng.below(len(g)), rng.below(len(g)))
        lines.append("%s\t%s\t%d\t%d" % (rng.choice(["cost", "costv", "sets"]), sl.graphspec(g), top, bottom))
        if rng.chance(1, 3):
            lines.append(rng.choice(["family\tladder\t%d\t%d" % (rng.below(4), rng.below(5)), "family\tchain\t%d" % rng.below(14)]))
    return lines[:n]


def conv_select(line, st):
    f = line.split("\t")
    s = lambda h: intern(st, unhx(h), 6)
    dots = lambda x: csv(x, ".")

    def nodes(x):
        ns, g = [], []
        for nd in csv(x):
            k, pkg, name, tags, plats, bn, deps, inputs = nd.split(":")
            ns.append(app("mkNode", "KAlias" if k == "a" else "KTarget", app("mkLabel", s(pkg), s(name)), gl([s(t) for t in dots(tags)]),
                          gl([s(t) for t in dots(plats)]), gb(bn == "1"), gl([s(t) for t in dots(inputs)])))
            g.append(gl([gn(d) for d in dots(deps)]))
        return gl(ns), gl(g)

    def cfg(x):
        cur, pats, tags, excl, ty, plat, al = x.split(":")
        return app("mkRaw", s(cur), gl([s(t) for t in dots(pats)]), gl([s(t) for t in dots(tags)]), gl([s(t) for t in dots(excl)]),
                   {"test": "TestOnly", "no_test": "NonTestOnly", "bin_output": "BinOutput", "all": "AllTargets"}[ty], s(plat), gb(al == "1"))

    def graph(x):
        return gl([gl([] if ds == "-" else [gn(d) for d in dots(ds)]) for ds in csv(x)])
    c3 = {"select": "CSelect", "selectspec": "CSelectSpec", "selcost": "CSelCost", "roots": "CRoots", "list": "CList", "listq": "CListq"}
    if f[0] in c3 and len(f) == 3:
        return app(c3[f[0]], *nodes(f[1]), cfg(f[2]))
    cg = {"ancestors": "CAncestors", "descendants": "CDescendants", "direct": "CDirect", "ancestors-paths": "CAncestorsPaths",
          "descendants-paths": "CDescendantsPaths"}
    if f[0] in cg and len(f) == 4:
        return app(cg[f[0]], nodes(f[1])[1], gn(f[3]))
    if f[0] in ("deps", "rdeps") and len(f) == 5:
        return app("CDeps" if f[0] == "deps" else "CRdeps", *nodes(f[1]), cfg(f[2]), gn(f[3]), gb(f[4] == "1"))
    if f[0] in ("owners", "owners-verbatim") and len(f) == 4:
        return app("COwners" if f[0] == "owners" else "COwnersVerbatim", nodes(f[1])[0], gl([s(t) for t in dots(f[3])]))
    cc = {"cost": "CCost", "costv": "CCostv", "sets": "CSets"}
    if f[0] in cc and len(f) == 4:
        return app(cc[f[0]], graph(f[1]), gn(f[2]), gn(f[3]))
    if f[:2] == ["family", "ladder"] and len(f) == 4:
        return app("CLadder", gn(f[2]), gn(f[3]))
    if f[:2] == ["family", "chain"] and len(f) == 3:
        return app("CChain", gn(f[2]))
    raise Unsupported(f[0])


ENGINES["select"] = {"imports": "Str Label Graph Select", "gen": gen_select, "conv": conv_select}


# ------------------------------------------------------------------ engine store (Store.v; ocaml/store/driver.ml)
def gen_store(rng, n):
    import store_ops as so
    lines = []
    while len(lines) < n:
        k = rng.below(10)
        if k < 6:     # op sequences over two machines, a remote and the fault lists (small contents only: every observation prints them)
            line = so.gen_case_(rng, local_only=rng.chance(1, 4))
            if rng.chance(1, 4) and "\tlf=" not in line:
                f = line.split("\t")
                f.insert(2, "lf=" + ",".join(rng.choice(["o", "o", "e", "l"]) for _ in range(1 + rng.below(4))))
                line = "\t".join(f)
            if rng.chance(1, 12):
                line += "\tx:A:w:what"
            lines.append(line)
        elif k < 9:   # Layer 1: per target blob / result writes, a schedule and a fault per step
            ts = []
            for _ in range(1 + rng.below(3)):
                ops = []
                for _ in range(rng.below(4)):
                    c = rng.choice(so.CONTENTS + [b"0123456789"])
                    cut = sorted(rng.below(len(c) + 1) for _ in range(rng.below(3)))
                    chunks = [c[a:b] for a, b in zip([0] + cut, cut + [len(c)])] if rng.chance(3, 4) else []
                    if rng.chance(2, 3):
                        ops.append("B:%s" % so.dg(c)[:8] + (":" + ".".join(hx(x) for x in chunks) if chunks or rng.chance(1, 2) else ""))
                    else:
                        refs = ".".join(so.dg(x)[:8] for x in rng.sample(so.CONTENTS, rng.below(3)))
                        ops.append("R:%s" % rng.choice(so.RKEYS) + (":" + refs if refs or rng.chance(1, 2) else ""))
                ts.append(";".join(ops))
            nsteps = sum(t.count(";") + 1 for t in ts) * 7
            sched = ",".join(str(rng.below(len(ts) + 1)) for _ in range(rng.below(nsteps + 1))) or "-"
            faults = "".join("1" if rng.chance(1, 10) else "0" for _ in range(rng.below(nsteps + 1))) or "-"
            lines.append("steps\t%s\t%s\t%s" % ("|".join(ts), sched, faults))
        else:
            ks = lambda: ",".join(rng.sample(["k1", "k2", "k3", "k4"], rng.below(4))) or "-"
            lines.append("guard\t%s\t%s" % (ks(), ks()))
    return lines[:n]


def conv_store(line, st):
    f = line.split("\t")
    s = lambda b: intern(st, b if isinstance(b, bytes) else b.encode("latin-1"), 6)
    path = {"cas": "PCas", "target": "PTarget", "taint": "PTaint"}
    mach, mode = {"A": "MA", "B": "MB"}, {"l": "Local", "w": "Wrapped"}

    def wop(o):
        x = o.split(":")
        if len(x) == 2 and x[0] == "reset":
            return par(app("XOp", par(app("Reset", mach[x[1]]))))
        if (o.startswith("lbreak:") or o.startswith("lfix:")) and len(o) > 7:
            return "XNoop"
        a = None
        if x[0] == "b" and len(x) >= 6:
            m, md, verb, p, k, rest = x[1], x[2], x[3], path[x[4]], s(x[5]), x[6:]
            a = {"get": lambda: app("AGet", p, k), "ex": lambda: app("AExists", p, k), "del": lambda: app("ADelete", p, k),
                 "set": lambda: app("ASet", p, k, s(unhx(rest[0]))) if len(rest) == 1 else None}.get(verb, lambda: None)()
        elif x[0] == "c" and len(x) >= 5:
            m, md, verb, d, rest = x[1], x[2], x[3], s(x[4]), x[5:]
            a = {"load": lambda: app("AGet", "PCas", d), "ex": lambda: app("ACasExists", d),
                 "write": lambda: app("ACasWrite", d, s(unhx(rest[0]))) if len(rest) == 1 else None}.get(verb, lambda: None)()
        elif x[0] == "r" and len(x) >= 5:
            m, md, verb, k, rest = x[1], x[2], x[3], s(x[4]), x[5:]
            a = {"load": lambda: app("AGet", "PTarget", k), "has": lambda: app("AExists", "PTarget", k),
                 "write": lambda: app("ASet", "PTarget", k, s("r" + rest[0].replace(".", ",") if rest else "r")) if len(rest) <= 1 else None
                 }.get(verb, lambda: None)()
        else:
            return "XBad"
        if a is None:
            raise Unsupported("store op the driver rejects")
        return par(app("XOp", par(app("Do", mach[m], mode[md], a))))
    if f[0] == "case":
        rf = [] if f[1] in ("-", "") else [{"n": "FNone", "f": "FFail", "m": "FFail", "e": "FEarly", "4": "FNotFound"}[x] for x in f[1].split(",")]
        ops, lf = f[2:], []
        if ops and len(ops[0]) > 3 and ops[0].startswith("lf="):
            lf, ops = [{"o": "LOk", "e": "LEarly", "l": "LLate"}[x] for x in csv(ops[0][3:])], ops[1:]
        return app("CCase", gl(rf), gl(lf), gl([wop(o) for o in ops]))
    if f[0] == "steps" and len(f) == 4:
        def l1(o):
            x = o.split(":")
            if x[0] == "B" and len(x) in (2, 3):
                return app("OBlob", s(x[1]), gl([s(unhx(c)) for c in (x[2].split(".") if len(x) == 3 and x[2] else [])]))
            if x[0] == "R" and len(x) in (2, 3):
                return app("OResult", s(x[1]), gl([s("r" + (x[2].replace(".", ",") if len(x) == 3 else ""))]))
            raise Unsupported("l1 op")
        opss = gl([gl([l1(o) for o in t.split(";")] if t else []) for t in f[1].split("|")])
        return app("CSteps", opss, gl([gn(x) for x in csv("" if f[2] == "-" else f[2])]), gl([gb(c == "1") for c in ("" if f[3] == "-" else f[3])]))
    if f[0] == "guard" and len(f) == 3:
        return app("CGuard", *[gl([s(k) for k in csv("" if x == "-" else x)]) for x in f[1:]])
    raise Unsupported(f[0])


ENGINES["store"] = {"imports": "Str Store", "gen": gen_store, "conv": conv_store}


# ------------------------------------------------------------------ engine tree (Tree.v; ocaml/tree/driver.ml)
def gen_tree(rng, n):
    import copy
    import c06
    lines = []
    shapes = [[], [("d", b"e", [("d", b"f", [])])], [("d", b"x", [("f", b"a", b"same", 0o644)]), ("d", b"y", [("f", b"a", b"same", 0o755)])]]
    while len(lines) < n:
        k = rng.below(10)
        if k < 7:
            names = c06.NAMES + (c06.BAD_NAMES if rng.chance(1, 8) else [])
            tree = shapes.pop() if shapes and rng.chance(1, 8) else c06.gen_tree(rng, names=names, budget=4 + rng.below(14))
            dest = c06.perturb(rng, tree, rng.choice(c06.STATES))
            blobs = ["T"] + sorted(set(c06.contents_of(tree)))
            missing = rng.sample(blobs, rng.below(min(3, len(blobs)) + 1)) if rng.chance(1, 2) else []
            lines.append("dir\t%s\t%s\t%s" % (c06.tree_field(tree, True), c06.dest_field(dest, True), c06.fault_field(missing, True)))
        else:
            c, md = rng.choice(c06.CONTENTS), rng.choice(c06.MODES)
            other = bytes((b ^ 1) for b in c) if c else b"other"
            dest = rng.choice([("A",), ("P",), ("F", c, 0o644), ("F", c, 0o755), ("F", other, rng.choice(c06.MODES)), ("D", []),
                               ("D", [("f", b"f", b"x", 0o644)])])
            lines.append("file\t%s\t%d\t%s\t%d" % (hx(c06.sha16(c)), 1 if md & 0o111 else 0, c06.dest_field(dest, True), rng.below(2)))
    return lines[:n]


def conv_tree(line, st):
    f = line.split("\t")
    s = lambda h: intern(st, unhx(h), 6)
    ex = lambda m: gb(int(m, 8) & 0o111 != 0)

    def entries(toks):
        """the entries of one directory; consumes up to and including the closing 'u'"""
        es = []
        while toks:
            t = toks.pop(0)
            if t == "u":
                break
            x = t.split(":")
            if x[0] == "f" and len(x) == 4:
                es.append(gpair(s(x[1]), app("File", s(x[2]), ex(x[3]))))
            elif x[0] == "l" and len(x) == 3:
                es.append(gpair(s(x[1]), app("Link", s(x[2]))))
            elif x[0] == "d" and len(x) == 2:
                es.append(gpair(s(x[1]), app("Dir", entries(toks))))
            else:
                raise Unsupported("tree token the driver rejects")
        return gl(es)

    def tree(x):
        if x == "-":
            return "[]"
        toks = x.split(",")
        es = entries(toks)
        if toks:
            raise Unsupported("trailing tree tokens")
        return es

    def dest(x):
        if x in ("A", "P"):
            return {"A": "DAbsent", "P": "DParentAbsent"}[x]
        if x == "D":
            return app("DDir", "[]")
        if x.startswith("D,") and len(x) > 2:
            return app("DDir", tree(x[2:]))
        y = x.split(":")
        if y[0] == "F" and len(y) == 3:
            return app("DFile", s(y[1]), ex(y[2]))
        raise Unsupported("dest the driver rejects")
    if f[0] == "dir" and len(f) == 4:
        missing = [] if f[3] == "-" else [gopt(None if m == "T" else s(m)) for m in f[3].split(",")]
        return app("CDir", app("Dir", tree(f[1])), dest(f[2]), gl(missing))
    if f[0] == "file" and len(f) == 5:
        return app("CFile", s(f[1]), gb(f[2] == "1"), dest(f[3]), gb(f[4] == "1"))
    raise Unsupported(f[0])


ENGINES["tree"] = {"imports": "Str Tree", "gen": gen_tree, "conv": conv_tree}


# ------------------------------------------------------------------ engine lock (Lock.v; ocaml/lock/driver.ml)
def gen_lock(rng, n):
    lines = ["witness\tw1", "witness\tw2"]
    while len(lines) < n:
        np = 1 + rng.below(4)
        dead = [p for p in range(np) if rng.chance(1, 6)]
        lock = rng.choice(["absent", "absent", "blank", "pid%d" % rng.below(np + 1)])
        toks = []
        for _ in range(rng.below(26)):
            p = rng.below(np + (1 if rng.chance(1, 10) else 0))
            k = rng.below(20)
            toks.append(("s%d" if k < 13 else "!%d" if k == 13 else "a%d" if k < 16 else rng.choice("crpxkua") + "%d") % p)
        lines.append("run\t%d\t%s\t%s\t%s" % (np, ",".join(map(str, dead)) or "-", lock, ",".join(toks) or "-"))
    return lines[:n]


def conv_lock(line, st):
    f = line.split("\t")
    if f == ["witness", "w1"]:
        return "CWitness1"
    if f == ["witness", "w2"]:
        return "CWitness2"
    if f[0] == "run" and len(f) == 5:
        ev = {"c": "TryCreate", "r": "Read", "p": "Probe", "x": "Remove", "k": "Wake", "u": "Unlock", "!": "Crash",
              "a": "Cancel"}
        toks = []
        for t in csv("" if f[4] == "-" else f[4]):
            toks.append(app("TNext", gn(t[1:]), gs(t)) if t[0] == "s" else app("TEv", app(ev[t[0]], gn(t[1:]))))
        lk = "None" if f[3] == "absent" else "Some None" if f[3] == "blank" else "Some (Some %s)" % gn(f[3][3:])
        return app("CRun", gn(f[1]), gl([gn(x) for x in csv("" if f[2] in ("-", "") else f[2])]), lk, gl(toks))
    raise Unsupported(f[0])


ENGINES["lock"] = {"imports": "Str Lock", "gen": gen_lock, "conv": conv_lock}


# ------------------------------------------------------------------ engine loader (Loader.v; ocaml/loader/driver.ml)
def gen_loader(rng, n):
    """Scanner cases need the decoder's answers for the annotation blocks of the content: the blocks come from the driver's
    `blocksmk`/`blockssh` (not mirrored), the answers are drawn here (any function is a legitimate oracle for this check)."""
    import c16
    b, fname = c16.b, "x.grog.sh"
    pk = lambda: c16.gen_package(rng, wild=rng.chance(1, 2))

    def pkn():
        """a package whose targets / aliases list may hold a null element"""
        d = pk()
        for key in ("targets", "aliases"):
            if rng.chance(1, 12):
                d.setdefault(key, [])
                d[key].insert(rng.below(len(d[key]) + 1), None)
        return d
    scans = [(k, c, c16.LONG) for k in ("mk", "sh") for c in rng.sample(c16.SCAN_NASTIES, n // 10)]
    for _ in range(n // 5):
        d = pk()
        d = dict(d, targets=[t for t in d["targets"] if t is not None] or [c16.gen_target(rng, "a", ["a"], False)],
                 aliases=[a for a in d.get("aliases", []) if a is not None])     # the scanners render real targets only
        dm = c16.mk_projection(d)
        if dm is not None and rng.chance(1, 2):
            c = ("mk", b(c16.render_makefile(rng, dm)))
        else:
            c = ("sh", b(c16.render_script(rng, d["targets"][0])))
        if rng.chance(1, 3):
            c = (c[0] if rng.chance(5, 6) else "mk", c16.mutate(rng, c[1]))
        scans.append((c[0], c[1], rng.choice([None, None, c16.LONG, 40])))
    sfx = lambda m: ("\t%d" % m) if m else ""
    rc, bl, err = vlib.run_lines(vlib.build_driver("loader"), [("blocksmk\t%s" if k == "mk" else "blockssh\t%s") % hx(c) + sfx(m) for k, c, m in scans])
    if rc != 0 or len(bl) != len(scans):
        raise RuntimeError("xcheck loader: blocks* failed: " + err[-300:])

    def annot():
        t = c16.gen_target(rng, rng.choice(c16.NAMES + c16.ODD_NAMES), c16.NAMES, True)
        x = lambda v: hx(b(v))
        return c16.sx_annot({"name": x(t["name"] if rng.chance(2, 3) else ""), "deps": [x(v) for v in t.get("dependencies", [])],
                             "inputs": [x(v) for v in t.get("inputs", [])], "tags": [x(v) for v in t.get("tags", [])],
                             "fingerprint": [(x(k), x(v)) for k, v in t.get("fingerprint", {}).items()],
                             "env": [(x(k), x(v)) for k, v in t.get("environment_variables", {}).items()], "timeout": x(t.get("timeout", "")),
                             "has_platforms": "platforms" in t, "platforms": [x(v) for v in t.get("platforms", [])],
                             "outputs": [x(v) for v in t.get("outputs", [])]})
    lines = []
    for (k, c, m), l in zip(scans, bl):
        tab = c16.sx_list(["( %s %s )" % (blk, "E" if rng.chance(1, 6) else annot()) for blk in sorted(set(l.split("\t")[1:]))])
        lines.append(("scanmk\t%s\t%s" % (hx(c), tab) if k == "mk" else "scansh\t%s\t%s\t%s" % (hx(fname), hx(c), tab)) + sfx(m))
        if k == "mk" and rng.chance(1, 3):
            lines.append("guardmk\t%s" % hx(c) + sfx(m))
    ws = [b" ", b"\t", b"\n", b"\r", b"\x0b", b"\x0c", b"\xc2\xa0", b"\xc2\x85", b"\xe2\x80\x83", b"\xe3\x80\x80", b"\xe2\x80", b"\xa0", b"a", b"#", b"x y"]
    while len(lines) < n:
        k = rng.below(10)
        globs = {p: (None if p == c16.BAD_GLOB or rng.chance(1, 25) else rng.sample(c16.FILES, rng.below(4))) for p in c16.IN_LIT + c16.IN_GLOB + c16.EXCL + [c16.BAD_GLOB]}
        if k < 5:
            d = pkn()
            lines.append("enrich\t%s\t%s\t%s\t%s" % (hx(b(rng.choice(c16.PKG_PATHS))), c16.sx_package(d), c16.glob_table(d, globs), c16.dur_table(d)))
        elif k < 8:
            paths = rng.sample(c16.DET_DIRS, 1 + rng.below(3))
            frags = [(p if not rng.chance(1, 8) else paths[0], pkn()) for p in paths]
            lines.append(c16.merge_line(frags, globs))
        else:
            lines.append("trim\t" + hx(b"".join(rng.choice(ws) for _ in range(rng.below(8)))))
    return rng.shuffle(lines)[:n]


def parse_sx(x):
    """S-expression over atoms: nested python lists of strings."""
    toks = [t for t in x.split(" ") if t]

    def one(i):
        if toks[i] == "(":
            items, i = [], i + 1
            while toks[i] != ")":
                v, i = one(i)
                items.append(v)
            return items, i + 1
        if toks[i] == ")":
            raise Unsupported("sx the driver rejects")
        return toks[i], i + 1
    v, i = one(0)
    if i != len(toks):
        raise Unsupported("sx the driver rejects")
    return v


def conv_loader(line, st):
    f = line.split("\t")
    s = lambda h: intern(st, unhx(h), 6)

    def need(c):
        if not c:
            raise Unsupported("sx shape the driver rejects")
    strs = lambda x: (need(isinstance(x, list)), gl([s(a) for a in x]))[1]
    prs = lambda x: (need(isinstance(x, list) and all(isinstance(e, list) and len(e) == 2 for e in x)), gl([gpair(s(a), s(c)) for a, c in x]))[1]
    optl = lambda x: "None" if x == "N" else "Some %s" % par(strs(x))

    def annot(x):
        need(isinstance(x, list) and len(x) == 9)
        name, deps, ins, tags, fp, env, tmo, plats, outs = x
        return app("mkAnnot", s(name), strs(deps), strs(ins), strs(tags), prs(fp), prs(env), s(tmo), optl(plats), strs(outs))

    def td(x):
        need(isinstance(x, list) and len(x) == 13)
        name, cmd, deps, ins, excl, outs, bn, checks, tags, fp, plats, env, tmo = x
        return app("mkTD", s(name), s(cmd), strs(deps), strs(ins), strs(excl), strs(outs), s(bn), prs(checks), strs(tags), prs(fp), optl(plats),
                   prs(env), s(tmo))

    def pd(x):
        need(isinstance(x, list) and len(x) == 4 and isinstance(x[1], list) and isinstance(x[2], list))
        ad = lambda a: (need(isinstance(a, list) and len(a) == 2), app("mkAD", s(a[0]), s(a[1])))[1]
        nullable = lambda g, e: "None" if e == "N" else "Some %s" % par(g(e))      # N = a null element of the list
        return app("mkPD", s(x[0]), gl([nullable(td, t) for t in x[1]]), gl([nullable(ad, a) for a in x[2]]), optl(x[3]))

    def table(x, val):
        """Hashtbl.replace: the last row of a key wins"""
        need(isinstance(x, list))
        rows = {}
        for r in x:
            need(isinstance(r, list) and len(r) == 2 and isinstance(r[0], str))
            rows[r[0]] = "None" if r[1] == "E" else "Some %s" % par(val(r[1]))
        return gl([gpair(s(k), v) for k, v in rows.items()])
    mxl = lambda xs: gopt(gn(xs[0]) if xs else None)
    if f[0] == "scanmk" and len(f) in (3, 4):
        return app("CScanMk", s(f[1]), table(parse_sx(f[2]), annot), mxl(f[3:]))
    if f[0] == "scansh" and len(f) in (4, 5):
        return app("CScanSh", s(f[1]), s(f[2]), table(parse_sx(f[3]), annot), mxl(f[4:]))
    if f[0] == "guardmk" and len(f) in (2, 3):
        return app("CGuardMk", s(f[1]), mxl(f[2:]))
    if f[0] == "enrich" and len(f) == 5:
        return app("CEnrich", s(f[1]), pd(parse_sx(f[2])), table(parse_sx(f[3]), strs), table(parse_sx(f[4]), s))
    if f[0] == "merge" and len(f) == 4:
        frs = parse_sx(f[1])
        need(isinstance(frs, list) and all(isinstance(x, list) and len(x) == 2 for x in frs))
        return app("CMerge", gl([gpair(s(x[0]), pd(x[1])) for x in frs]), table(parse_sx(f[2]), strs), table(parse_sx(f[3]), s))
    if f[0] == "trim" and len(f) == 2:
        return app("CTrim", s(f[1]))
    raise Unsupported(f[0])


ENGINES["loader"] = {"imports": "Str Label Loader", "gen": gen_loader, "conv": conv_loader}


# ------------------------------------------------------------------ engine walker (Walker.v; ocaml/walker/driver.ml)
def parse_show(x):
    d = dict(kv.split("=") for kv in x.strip().split(" "))
    return {k: ([int(i) for i in v.split(",") if i] if k in "PRQXOFSA" or k in ("cp", "cmd", "rok", "rfail") else v) for k, v in d.items()}


def gen_walker(rng, n):
    """Sessions (graph, then ev / state / enabled / obs lines) along random walks of the model: the walks and the states after
    each of their events come from the driver (`walk`, `replay`), the observations are what a quiescent real walker would
    report in a state a few events ahead (sometimes perturbed, so that the BREAK texts are printed too)."""
    import walkerlib as wl
    drv = vlib.build_driver("walker")
    nsess = n // 5 + 2
    specs = []
    for _ in range(nsess):
        g = rng.choice(list(wl.TINY.values())) if rng.chance(1, 4) else wl.family_graph(rng, 7)[1]
        specs.append((rng.choice([1, 2, 2, 3]), rng.below(2), wl.deps_str(g), len(g)))
    walks = ["walk\t%d\t%d\t%s\t%d\t%d" % (w, f, ds, rng.below(10 ** 6), rng.choice([0, 0, 30, 100])) for w, f, ds, _ in specs]
    rc, wo, err = vlib.run_lines(drv, walks)
    evs = [[e for e in o.split(" | ")[0].split(" ", 2)[2].split(";") if e] if o.startswith("walk ") and o.count(" ") > 2 else [] for o in wo]
    replays = ["replay\t%d\t%d\t%s\t%s" % (w, f, ds, ";".join(ev)) for (w, f, ds, _), ev in zip(specs, evs)]
    rc, ro, err = vlib.run_lines(drv, replays)
    lines = []
    for (w, f, ds, size), ev, r, wl_, rl in zip(specs, evs, ro, walks, replays):
        states = [parse_show(x.split(" -> ")[1]) for x in r.split(" | ")] if ev else []
        lines.append("graph\t%d\t%d\t%s" % (w, f, ds))
        stop = rng.below(len(ev) + 1)
        for k in range(stop):
            c = rng.below(12)
            if c == 0:
                lines.append(rng.choice(["state", "enabled"]))
            elif c == 1:
                lines.append("ev\t" + rng.choice(["Start", "Pick", "FinishOk", "FinishFail", "Reject", "CancelRecv", "CmdStart", "FinishCancelled"]) +
                             " %d" % rng.below(size + 1) if rng.chance(2, 3) else "ev\t" + rng.choice(["CtxCancel", "WorkerExit", "WalkReturn"]))
            elif c < 5:
                d = states[max(0, min(len(states) - 1, k - 1 + rng.below(3)))]
                sets = {"S": d["Q"] + d["X"] + d["O"] + d["F"] + d["A"], "Enq": d["Q"], "B1": [i for i in d["X"] if i not in d["cmd"]],
                        "B2": [i for i in d["X"] if i in d["cmd"]], "Ok": d["O"], "Fail": d["F"]}
                if rng.chance(1, 5):
                    k2 = rng.choice(sorted(sets))
                    sets[k2] = sets[k2] + [rng.below(size)] if rng.chance(1, 2) or not sets[k2] else sets[k2][1:]
                fields = [",".join(map(str, sets[x])) for x in ("S", "Enq", "B1", "B2", "Ok", "Fail")] + [d["ret"]]
                if d["ret"] == "1" or rng.chance(1, 4):
                    fields += [",".join(map(str, d["rok"])), ",".join(map(str, d["rfail"]))]
                lines.append("obs\t" + "\t".join(fields))
            lines.append("ev\t" + ev[k])
        lines.append(rng.choice(["state", "enabled"]))
        if rng.chance(1, 2):
            lines.append(rng.choice([wl_, rl]))
    return lines[:n]


def conv_walker(line, st):
    f = line.split("\t")
    ints = lambda x: [int(i) for i in x.split(",") if i != ""]
    nl = lambda x: gl([gn(i) for i in ints(x)])
    graph = lambda x: gl([nl(ds) for ds in x.split(";")] if x != "" else [])

    def event(x):
        y = x.strip().split(" ")
        if y in (["CtxCancel"], ["WorkerExit"], ["WalkReturn"]):
            return y[0]
        if len(y) == 2 and y[0] in ("Start", "CancelRecv", "Pick", "CmdStart", "Reject", "FinishOk", "FinishFail", "FinishCancelled"):
            return app(y[0], gn(y[1]))
        raise Unsupported("event the driver rejects")
    cur = st.setdefault("walker", {"w": "1", "f": "false", "g": "[]", "pre": []})

    def sess(k, mutates=False):
        c = app("CSess", cur["w"], cur["f"], cur["g"], gl(cur["pre"]), k)
        if mutates:
            cur["pre"] = cur["pre"] + [k]
        return c
    if f[0] == "graph" and len(f) == 4:
        cur.update({"w": gn(f[1]), "f": gb(f[2] == "1"), "g": graph(f[3]), "pre": []})
        return sess("KGraph")
    if f == ["state"]:
        return sess("KState")
    if f == ["enabled"]:
        return sess("KEnabled")
    if f[0] == "ev" and len(f) == 2:
        return sess(app("KEv", event(f[1])), True)
    if f[0] == "obs" and len(f) in (8, 10):
        ret = "Some %s" % gpair(nl(f[8]), nl(f[9])) if len(f) == 10 else "None"
        return sess(app("KObs", *[nl(x) for x in f[1:7]], gb(f[7] == "1"), ret), True)
    if f[0] == "replay" and len(f) == 5:
        return app("CReplay", gn(f[1]), gb(f[2] == "1"), graph(f[3]), gl([gpair(event(e), gs(e)) for e in f[4].split(";") if e != ""]))
    if f[0] == "walk" and len(f) == 6:
        o = st["out"]      # the events the OCaml walk chose are part of the case: they are re-run inside Coq
        if not o.startswith("walk ") or " | " not in o:
            raise Unsupported("walk answer")
        evs = o.split(" | ")[0].split(" ", 2)
        return app("CWalk", gn(f[1]), gb(f[2] == "1"), graph(f[3]), gl([event(e) for e in (evs[2].split(";") if len(evs) > 2 else []) if e]))
    raise Unsupported(f[0])


ENGINES["walker"] = {"imports": "Str Graph Walker", "gen": gen_walker, "conv": conv_walker}


# ------------------------------------------------------------------ engine glob (Glob.v; ocaml/glob/driver.ml)
def gen_glob(rng, n):
    """The three line kinds of the glob stage of C01 over tools/c01_glob.py's own generators: its pattern set (exhaustive short
    strings, structured segments, random strings over the full alphabet) plus fresh joins of its structured segments, its file
    paths, its resolve cases; a few lines the driver rejects (wrong arity, a field that is not hex)."""
    import c01_glob as cg
    pats = cg.gen_patterns(rng, "quick")
    paths = cg.match_paths()
    good = cg.resolve_entries(pats)
    plain = [p for p in pats if cg.valid_path(p) and not (set(p) & set("*?[]{}\\"))]

    # what the pools above hold rarely or not at all: range bounds, runs of stars, the borders of Glob.covered
    edge = ["[a-b]", "[a-c]", "[b-a]", "[a-a]b", "*[a-b]", "[!a-b]", "[^a-b]b", "[a\\-b]", "[--a]", "[a-\\b]", "[+-0]", "[/]", "[a/b]", "[{]", "[a,b]",
            "a***", "***", "****", "**a", "a**", "**/a***", "{a,b}***", "*/***", "**/**", "**/**/a", "a/**", "a/**/b", "**/", ".", "..",
            "a/./b", "a/../b", "a//b", "/a", "a/", "\\a", "\\.", "a\\", "{a,{b,c}}", "{a}{b}", "{a,b}{a,b}", "{[a-b],.a}", "{a,b", "a,b}", "[a", "a]",
            "[a-b].txt", "src/[a-b].*", "[a-a].txt", "[a-b]/a", "b/[a-a]", "src/sub/[a-c].txt", "lib/[w-x]/*"]

    def pat():
        k = rng.below(9)
        if k == 8:
            return rng.choice(edge) if rng.chance(2, 3) else rng.choice(edge) + "/" + rng.choice(cg.STRUCT_SEGS)
        if k < 3:
            return "/".join(rng.choice(cg.STRUCT_SEGS) for _ in range(1 + rng.below(3)))
        if k == 3:
            return rng.choice(cg.ENTRY_POOL)
        return rng.choice(plain) if k == 4 else rng.choice(pats)

    def inst(p):
        """a path the pattern is likely to select (a guess: the driver says whether it does)"""
        p = re.sub(r"\{([^{},]*)[^{}]*\}", lambda m: m.group(1) or rng.choice(["", "a"]), p)
        p = re.sub(r"\[([!^]?)((?:\\.|[^\]\\])+)\]", lambda m: rng.choice(
            [c for c in "abc." if c not in m.group(2)] or ["z"] if m.group(1) else [c for c in m.group(2) if c not in "-\\"] or ["-"]), p)
        p = re.sub(r"\*\*", lambda m: rng.choice(["a", "a/b", "src/sub"]), p)
        p = re.sub(r"(?<!\\)\*", lambda m: rng.choice(["", "a", "b.a", "c"]), p)
        return re.sub(r"\\(.)", r"\1", re.sub(r"(?<!\\)\?", "a", p))
    lines = []
    while len(lines) < n:
        k = rng.below(20)
        if k < 4:
            lines.append("isglob\t" + hx(pat()))
        elif k < 13:
            p = pat()
            s = p if rng.chance(1, 8) else inst(p) if rng.chance(2, 3 if "[" in p else 6) else rng.choice(cg.FILES_POOL) if rng.chance(1, 5) else rng.choice(paths)
            lines.append("match\t%s\t%s" % (hx(p), hx(s)))
        elif k < 19 or len(lines) < 8:
            c = cg.gen_resolve_case(rng, good)
            if rng.chance(1, 3):     # entries the pools do not hold
                c = (c[0], c[1] + [pat()], c[2] + ([pat()] if rng.chance(1, 2) else []))
            if rng.chance(1, 3):     # the package's files are a set whatever the order / multiplicity they are listed in
                c = (rng.shuffle(c[0] + rng.sample(c[0], rng.below(3))), c[1], c[2])
            lines.append(cg.resolve_line(c))
        else:
            lines.append(rng.choice(["match\t" + hx(pat()), "isglob\tzz", "resolve\t-\t2a,2\t-", "isglob", "glob\t2a"]))
    return lines[:n]


def conv_glob(line, st):
    f = line.split("\t")

    def s(h):
        """Wire.unhex: "-" is the empty string, else two hex digits per byte (a trailing odd digit is dropped by the driver, a
        non-hex digit makes it answer driver-error: neither is mirrored)."""
        if h != "-" and not re.fullmatch(r"([0-9a-fA-F]{2})*", h):
            raise Unsupported("hex field the driver rejects or truncates")
        return intern(st, unhx(h), 6)
    lst = lambda x: gl([s(h) for h in x.split(",")] if x != "" else [])     # Wire.split_comma: "" is the empty list, "-" is [""]
    if f[0] == "isglob" and len(f) == 2:
        return app("CIsGlob", s(f[1]))
    if f[0] == "match" and len(f) == 3:
        return app("CMatch", s(f[1]), s(f[2]))
    if f[0] == "resolve" and len(f) == 4:
        return app("CResolve", lst(f[1]), lst(f[2]), lst(f[3]))
    raise Unsupported(f[0] + " (arity or command the driver rejects)")


ENGINES["glob"] = {"imports": "Str Glob", "gen": gen_glob, "conv": conv_glob}


# ------------------------------------------------------------------ entry point for ./check
def run_for(pid, out, tier="quick"):
    """Cross-check every engine property pid relies on (the one-line hook in ./check, after mod.run)."""
    for engine in ENGINE_OF.get(pid.upper(), []):
        run(engine, out, 200 if tier == "quick" else 1000)


# ------------------------------------------------------------------ command line
def main(argv):
    if len(argv) < 2 or (argv[1] != "all" and argv[1] not in ENGINES):
        print("usage: xcheck.py <%s|all> [n] [seed]" % "|".join(ENGINES))
        return 2
    n = int(argv[2]) if len(argv) > 2 else 200
    seed = int(argv[3]) if len(argv) > 3 else None
    out = vlib.Outcome("XCHECK", "quick")
    for e in (list(ENGINES) if argv[1] == "all" else [argv[1]]):
        t = time.time()
        r = run(e, out, n, seed)
        print("xcheck %-8s cases=%d mismatches=%s ocaml=%.2fs coqc=%.2fs wall=%.2fs not_covered=%s%s" % (
            e, r["cases"], r.get("mismatches", "?"), r["ocaml_s"], r["coqc_s"], time.time() - t, r["not_covered"] or "-",
            (" ERROR " + r["error"]) if "error" in r else ""))
        if r.get("first"):
            for k in ("input_line", "ocaml", "coq"):
                print("   first mismatch %-10s %r" % (k, (r["first"][k] or "")[:400]))
            print("   texts differ at %r" % r["first"]["differ_at"])
    for v in out.violations:
        print("VIOLATION", v["what"][:600])
    return 1 if out.violations else 0


if __name__ == "__main__":
    sys.exit(main(sys.argv))
