"""C17 -- labels and patterns.  Tie: exhaustive enumeration of strings over a small alphabet
(+ random long strings over all bytes) through the real grog/internal/label and through the
extracted Coq model; oracles evaluated on the implementation's own answers."""
import itertools, json, os
import vlib
from vlib import hx, unhx

ALPHABET = ["/", ":", ".", "a", "b", "-"]
CURS = ["", "a", "a/b"]
ODD_CURS = [".ci", ".a/b", "a/.b", "..", "./a", "/a", "//a", ".", "..a", "./.", "-a"]
UNIV_PKGS = ["", "a", "b", "a/b", "a/a", "ab", "a-", "a.", "a/b/a", "a/", "/a", "a//b", "a./b", "a/.", "."]
UNIV_NAMES = ["a", "b", "all", "...", "ab"]
UNIVERSE = [(p, n) for p in UNIV_PKGS for n in UNIV_NAMES]


def ref_match(prefix, target, rec, lab):
    """Reference matcher written from docs/reference/labels.md."""
    pkg, name = lab
    if rec:
        pkg_ok = prefix == "" or pkg == prefix or pkg.startswith(prefix + "/")
    else:
        pkg_ok = pkg == prefix
    name_ok = target in ("", "all", "...") or name == target
    return pkg_ok and name_ok


def gen_cases(tier, rng):
    maxlen = 6 if tier == "quick" else 8
    strings = [""]
    for n in range(1, maxlen + 1):
        for t in itertools.product(ALPHABET, repeat=n):
            strings.append("".join(t))
    nrand = 3000 if tier == "quick" else 200000
    extra = []
    pieces = ["//", ":", "...", "/", "a", "b", "all", "..", ".", "-", "_", "A", "9", "a/b", "\xff", " ", "\x00", "\n", "é"]
    for _ in range(nrand):
        k = 1 + rng.below(8)
        if rng.chance(1, 3):
            s = "".join(chr(rng.below(256)) for _ in range(1 + rng.below(12)))
        else:
            s = "".join(rng.choice(pieces) for _ in range(k))
        extra.append(s)
    # package parts ending in several slashes (C17-F1: the parser strips all of them), whatever the tier's length bound
    extra += ["//a//:x", "//a///:x", "//a//:all", "//a//:...", "//a/b//:b", "//a//...", "//a//...:x", "///:x", "////:x", "//a//b//:a"]
    # structured patterns beyond the length bound: //c1/c2/..<suffix> and the relative forms, components incl. ones ending in
    # or consisting of dots (a recursive pattern must cut at the wildcard, not at a character set)
    comps = ["a", "b", "a.", ".", "..", "a.b", "-", "ab", ".a"]
    sufs = ["", "/...", ":x", ":all", "/...:x", "/...:all", ":...", "/", "//...", "/...:"]
    paths = [""] + ["/".join(t) for n in (1, 2, 3) for t in itertools.product(comps, repeat=n)]
    if tier == "quick":
        paths = paths[:1 + 9 + 81] + [p for p in paths[1 + 9 + 81:] if rng.chance(1, 6)]
    for pth in paths:
        for sf in sufs:
            extra.append("//" + pth + sf)
            if pth:
                extra.append(pth + sf)
        # the name repeats the last component of the package part: the one spelling a printer may be tempted to shorten
        # (//a/b:b is the label shorthand //a/b, but //a/b/...:b is NOT //a/b/...) -- seed C17q
        if pth:
            last = pth.rsplit("/", 1)[-1]
            for sf in ("/...:" + last, ":" + last, "//...:" + last, "/:" + last):
                extra.append("//" + pth + sf)
    extra_curs = [".", "a:b", "x...y", "a/", "zz"]
    return strings, extra, extra_curs


import re
PLAIN_REC = re.compile(r"^//((?:[^/:]+/)*[^/:]+)/\.\.\.(?::([^:/]*))?$")


def text_expectation(s):
    """(prefix, target) a plainly spelled absolute recursive pattern //P/...[:n] denotes according to docs/reference/labels.md,
    read off the pattern TEXT (independent of both parsers); None for any other spelling"""
    m = PLAIN_REC.match(s)
    if not m or "..." in m.group(1):
        return None
    return m.group(1), (m.group(2) or "")


def lat(s):
    return s.encode("latin-1", "replace") if isinstance(s, str) else s


def run(out, tier):
    rng = vlib.Rng(vlib.seed())
    strings, extra, extra_curs = gen_cases(tier, rng)
    lines = ["universe\t" + ",".join("%s:%s" % (hx(lat(p)), hx(lat(n))) for p, n in UNIVERSE)]
    meta = [None]
    for cur in CURS:
        hc = hx(lat(cur))
        for s in strings:
            hs = hx(lat(s))
            lines.append("label\t%s\t%s" % (hc, hs)); meta.append(("label", cur, s))
            lines.append("pattern\t%s\t%s" % (hc, hs)); meta.append(("pattern", cur, s))
    # current packages that LOOK like something else: hidden directories, dot segments, a leading slash (what reaches the parser
    # through `grog run <script path>` or a directory the user stands in) x every short relative spelling
    for cur in ODD_CURS:
        hc = hx(lat(cur))
        for s in [x for x in strings if len(x) <= 3 and not x.startswith("//")] + [":all", ":x", "x", "...", ":...", "b:c", "./x", ".x:y"]:
            hs = hx(lat(s))
            lines.append("label\t%s\t%s" % (hc, hs)); meta.append(("label", cur, s))
            lines.append("pattern\t%s\t%s" % (hc, hs)); meta.append(("pattern", cur, s))
    for s in extra:
        cur = rng.choice(CURS + extra_curs + ODD_CURS)
        hc, hs = hx(lat(cur)), hx(lat(s))
        lines.append("label\t%s\t%s" % (hc, hs)); meta.append(("label", cur, s))
        lines.append("pattern\t%s\t%s" % (hc, hs)); meta.append(("pattern", cur, s))
    # corpus first (minimised past failures)
    corpus = os.path.join(vlib.VERIF, "corpus", "C17", "cases.txt")
    if os.path.exists(corpus):
        for l in open(corpus):
            l = l.rstrip("\n")
            if l and not l.startswith("#"):
                kind, cur, s = l.split("\t")
                lines.append("%s\t%s\t%s" % (kind, cur, s)); meta.append((kind, unhx(cur).decode("latin-1"), unhx(s).decode("latin-1")))

    drv = vlib.build_driver()
    rc_m, model, err_m = vlib.run_lines(drv, lines)
    if rc_m != 0 or len(model) != len(lines):
        raise RuntimeError("model driver failed: rc=%s lines=%d/%d %s" % (rc_m, len(model), len(lines), err_m[-500:]))
    inproc = True
    try:
        h = vlib.build_harness("label")
        rc_i, impl, err_i = vlib.run_lines(h, lines)
        if rc_i != 0 or len(impl) != len(lines):
            # a crash of the implementation on some input: find it
            out.violation("label harness crashed or truncated its output (rc=%s, %d/%d lines): %s" % (
                rc_i, len(impl), len(lines), err_i[-400:]),
                {"case": meta[len(impl)] if len(impl) < len(meta) else None, "stderr": err_i[-2000:]})
            impl = impl + ["<missing>"] * (len(lines) - len(impl))
    except vlib.HarnessUnavailable as e:
        inproc = False
        out.notes.append("inprocess_tie: unavailable (%s)" % str(e)[-500:])
        impl = None

    findings = {f["class"]: f for f in vlib.known_findings("C17")}
    nontrivial = set()
    mismatches = []
    oracle_fail = []
    kinds = {"label_ok": 0, "label_err": 0, "pattern_ok": 0, "pattern_err": 0, "pattern_rec": 0}
    if impl is not None:
        for i in range(1, len(lines)):
            kind, cur, s = meta[i]
            a = impl[i]
            partial = None
            if kind == "pattern" and "\tpartial=" in a:
                # implementation-only field (ParsePartialTargetPattern has no counterpart in Label.v)
                a, partial = a.rsplit("\tpartial=", 1)
                impl[i] = a
            if a != model[i]:
                mismatches.append(i)
            f = a.split("\t")
            if kind == "label":
                if f[0] == "ok":
                    kinds["label_ok"] += 1
                    nontrivial.add(lines[i])
                    pkg, name = unhx(f[1]).decode("latin-1"), unhx(f[2]).decode("latin-1")
                    # O1 round trip (guard: no ':' in the package, i.e. in the current package path)
                    if ":" not in pkg and f[4] != "%s:%s" % (f[1], f[2]):
                        oracle_fail.append((i, "label round trip: parse(print(l)) = %s, l = %s:%s" % (f[4], f[1], f[2])))
                    # O2 shorthand / O3 relative
                    if s.startswith("//") and ":" not in s[2:]:
                        if pkg != s[2:] or name != s[2:].rsplit("/", 1)[-1]:
                            oracle_fail.append((i, "shorthand //p must mean //p:<last component>"))
                    if s.startswith(":") and (pkg != ("" if cur == "." else cur) or name != s[1:]):
                        oracle_fail.append((i, "relative label must resolve against the current package"))
                else:
                    kinds["label_err"] += 1
                    if len(s) > 2:
                        nontrivial.add(lines[i])
            else:
                if f[0] == "ok":
                    kinds["pattern_ok"] += 1
                    nontrivial.add(lines[i])
                    prefix, target = unhx(f[1]).decode("latin-1"), unhx(f[2]).decode("latin-1")
                    rec = f[3] == "1"
                    kinds["pattern_rec"] += rec
                    mv, re_ = f[5], f[6]
                    want = "".join("1" if ref_match(prefix, target, rec, l) else "0" for l in UNIVERSE)
                    if mv != want:
                        oracle_fail.append((i, "Matches disagrees with the documented matching rule: got %s want %s" % (mv, want)))
                    # O7 a plainly spelled //P/...[:n] means "package P and below at component boundaries", judged from the text
                    te = text_expectation(s)
                    if te is not None:
                        want_t = "".join("1" if ref_match(te[0], te[1], True, l) else "0" for l in UNIVERSE)
                        if mv != want_t:
                            oracle_fail.append((i, "recursive pattern %r does not match exactly the labels in package %r and below: got %s want %s" % (
                                s, te[0], mv, want_t)))
                    # O5 print / re-parse (C17_pattern_reparse, C17_pattern_reparse_abs): no guard for absolute patterns,
                    # relative ones need a current package that is a package path (no ':', no '...', no trailing slash)
                    absolute = s.startswith("//")
                    cur_ok = ":" not in cur and "..." not in cur and not cur.endswith("/")
                    same = "%s:%s:%s" % (f[1], f[2], f[3])
                    rp = f[7] if len(f) > 7 else same
                    if re_ != mv or ((absolute or cur_ok) and rp != same):
                        if absolute and not rec and prefix.endswith("/") and "trailing-slash-prefix" in findings:
                            out.known(findings["trailing-slash-prefix"]["id"],
                                      "pattern %r prints as %r which %s" % (s, unhx(f[4]).decode("latin-1"),
                                      "matches a different label set" if re_ != mv else "parses to a different pattern (%s -> %s)" % (same, rp)))
                        elif not absolute and not cur_ok:
                            pass  # relative pattern in a current package that is not a package path: outside the guard (DESIGN 5.C17)
                        elif re_ != mv:
                            oracle_fail.append((i, "print/re-parse changes the match set: %r prints as %r, %s -> %s" % (
                                s, unhx(f[4]).decode("latin-1"), mv, re_)))
                        else:
                            oracle_fail.append((i, "print/re-parse changes the pattern: %r prints as %r, %s -> %s" % (
                                s, unhx(f[4]).decode("latin-1"), same, rp)))
                    # O6 the lenient parser used for completion reads a complete absolute pattern like the strict one
                    if partial is not None and absolute and (rec or ":" in s[2:]):
                        if partial != same + ":complete":
                            oracle_fail.append((i, "ParsePartialTargetPattern reads the complete pattern %r as %s, ParseTargetPattern as %s" % (
                                s, partial, same)))
                else:
                    kinds["pattern_err"] += 1
                    if len(s) > 2:
                        nontrivial.add(lines[i])
    oracle_fail.sort(key=lambda e: "match set" not in e[1])   # stable: failures that change the match set first
    for i, why in oracle_fail[:3]:
        out.violation(why, {"case": {"kind": meta[i][0], "cur": meta[i][1], "input": meta[i][2]},
                            "line": lines[i], "impl": impl[i], "model": model[i],
                            "replay_cmd": "./check C17 --replay <this file>"})
    if mismatches and not oracle_fail:
        i = mismatches[0]
        out.violation("correspondence Label.v ~ internal/label broke on %d cases, e.g. %s %r (cur %r): impl=%s model=%s; "
                      "no oracle of C17 fails on the implementation" % (len(mismatches), meta[i][0], meta[i][2], meta[i][1], impl[i], model[i]),
                      {"correspondence": "Label.parse_label/parse_pattern/matches/print_* vs label.ParseTargetLabel/ParseTargetPattern/Matches/String",
                       "case": {"kind": meta[i][0], "cur": meta[i][1], "input": meta[i][2]}, "impl": impl[i], "model": model[i],
                       "mismatching_cases": len(mismatches)}, no_input=True)

    # replay the _refuted witness on the implementation (known finding must still reproduce)
    cli = cli_tie(out, rng, tier)
    samples = []
    for i in (2, len(lines) // 2, len(lines) - 1):
        samples.append({"case": list(meta[i]), "impl": (impl or model)[i], "model": model[i]})
    out.cov.update({
        "evaluations": len(lines) - 1,
        "distinct_nontrivial": len(nontrivial),
        "rule": "every string over {/ : . a b -} up to length %d x current packages %s, as label and as pattern, match vector against a %d-label universe; "
                "plus %d random and fixed strings over all byte values; non-trivial = parses successfully or is longer than 2 bytes; distinct = distinct (kind, cur, input)" % (
                    6 if tier == "quick" else 8, CURS, len(UNIVERSE), len(extra)),
        "exhaustive": True,
        "samples": samples,
        "traces_validated_against_impl": (len(lines) - 1) if impl is not None else 0,
        "correspondence_mismatches": len(mismatches),
        "oracle_failures": len(oracle_fail),
        "input_distribution": kinds,
        "inprocess_tie": inproc,
        "cli_tie": cli,
    })
    out.assumptions += ["current package paths come from filepath.Rel (clean, no trailing slash)",
                        "label universe for match vectors is finite (%d labels); the theorems cover all labels" % len(UNIVERSE)]


def cli_tie(out, rng, tier):
    """grog list <pattern> on a real workspace holding a label universe, compared with the model."""
    try:
        grog = vlib.build_grog()
    except vlib.HarnessUnavailable as e:
        out.notes.append("cli_tie: unavailable (%s)" % str(e)[-300:])
        return {"available": False}
    ws = os.path.join(vlib.scratch(), "c17ws")
    pkgs = {"": ["a", "b", "all"], "a": ["a", "b"], "a/b": ["b", "ab"], "ab": ["a", "ab"], "a/a": ["a"]}
    for p, names in pkgs.items():
        d = os.path.join(ws, p)
        os.makedirs(d, exist_ok=True)
        with open(os.path.join(d, "BUILD.json"), "w") as f:
            json.dump({"targets": [{"name": n, "command": "true"} for n in names]}, f)
    open(os.path.join(ws, "grog.toml"), "w").write("")
    univ = [(p, n) for p, ns in pkgs.items() for n in ns]
    pats = ["//...", "//a/...", "//a:all", "//a", "//a/b", "//a/b:...", "//ab/...", "//a/...:b", ":a", ":all",
            "//a...", "//:all", "//a/b:ab", "//a/a", "//:a", "//a/:a", "//b/...", "//a/b/...:ab",
            "//a//:a", "//a///:all", "//a/b//:b", "//a//...:b", "///:a"]
    if tier != "quick":
        pats += ["//" + "".join(rng.choice(["a", "b", "/", "...", ":", "all"]) for _ in range(1 + rng.below(4))) for _ in range(60)]
    curs = ["", "a", "a/b"]
    cases = [(c, p) for c in curs for p in pats]
    drv = vlib.build_driver()
    lines = ["universe\t" + ",".join("%s:%s" % (hx(p), hx(n)) for p, n in univ)]
    lines += ["pattern\t%s\t%s" % (hx(c), hx(p)) for c, p in cases]
    _, model, _ = vlib.run_lines(drv, lines)
    env = dict(os.environ, GROG_ROOT=os.path.join(vlib.scratch(), "c17root"), HOME=vlib.scratch())
    bad = 0
    for (c, p), m in zip(cases, model[1:]):
        r = vlib.run([grog, "list", p], cwd=os.path.join(ws, c), env=env, timeout=60)
        got = sorted(l.strip() for l in r.stdout.split("\n") if l.strip().startswith("//"))
        f = m.split("\t")
        if f[0] == "err":
            want = None
        else:
            want = sorted("//%s:%s" % l for l, bit in zip(univ, f[5]) if bit == "1")
        ok = (want is None and r.returncode != 0) or (want is not None and got == want)
        if not ok:
            bad += 1
            ref = None
            out.violation("grog list %r in package %r prints %s, the model's match set is %s" % (p, c, got, want),
                          {"cmd": "grog list " + p, "cwd_package": c, "stdout": got, "model": want, "exit": r.returncode,
                           "stderr": r.stderr[-400:], "packages": pkgs})
    return {"available": True, "patterns": len(cases), "disagreements": bad}


def replay(out, path):
    rp = json.load(open(path))["replay"]
    c = rp.get("case") or {}
    line = rp.get("line") or "%s\t%s\t%s" % (c["kind"], hx(lat(c["cur"])), hx(lat(c["input"])))
    uni = "universe\t" + ",".join("%s:%s" % (hx(lat(p)), hx(lat(n))) for p, n in UNIVERSE)
    h = vlib.build_harness("label")
    drv = vlib.build_driver()
    _, impl, _ = vlib.run_lines(h, [uni, line])
    _, model, _ = vlib.run_lines(drv, [uni, line])
    impl[1] = impl[1].rsplit("\tpartial=", 1)[0]
    print("impl :", impl[1])
    print("model:", model[1])
    if impl[1] != model[1]:
        out.violation("replay: implementation and model still differ", rp)
